"""C07 — conversion is deterministic and stateless."""
import subprocess

import backend
import common
import gen
from common import hx, unhx
from runner import PropertyCheck, Failure, Disagreement


def run_process(mode_args, lines, timeout=900):
    """one fresh harness process (its own RandomState seeds, its own lazily initialised statics)"""
    p = subprocess.run([common.HARNESS_BIN] + mode_args, input=("\n".join(lines) + "\n").encode(),
                       capture_output=True, timeout=timeout)
    out = {}
    for l in p.stdout.decode("utf-8", "replace").splitlines():
        sp = l.split(" ", 1)
        if len(sp) == 2:
            out[sp[0]] = sp[1]
    return out


class Check(PropertyCheck):
    id = "C07"
    lean_modules = ["Svgbob.Properties.C07"]
    assumptions = [
        "thread interleavings inside once_cell on first use are runtime behaviour outside the model: exercised with "
        "racing threads released by a barrier in fresh processes",
        "whole-pipeline model tied to the implementation end to end (bytes): the model is a function of the input alone",
    ]

    def rule(self):
        return ("inputs (random diagrams over the full alphabet, circles/boxes with attachments, the same drawings at other offsets, "
                "bundled files) converted alone in a fresh process, in N fresh processes (independent hash "
                "seeds; quick 8, thorough 32), in one warm process under shuffled histories, and by 2..16 threads racing on the "
                "first, table-initialising calls; every output compared byte for byte; non-trivial = non-empty output "
                "geometry, distinct by input")

    def texts(self, n):
        """random diagrams, shapes that leave a remainder when recognised, bundled files — and, for a third of them, the
        same drawing again at other offsets (state keyed by shape rather than by position would show there)"""
        base = [gen.random_diagram(self.rng, 26, 10) for _ in range(n * 2 // 3)]
        base += [gen.attached_shape(self.rng) for _ in range(max(0, n - len(base) - n // 10))]
        # shapes carrying several tags, nested shapes (unordered containers in the class / nesting code would show)
        for _ in range(n // 10):
            tags = ["{%s}" % ",".join(self.rng.choice(["red", "big", "dotted", "a", "b1", "w"]) for _ in range(self.rng.range(2, 4)))]
            if self.rng.chance(1, 2):
                tags = ["{red}", "{big} x", "{w}"][: self.rng.range(2, 3)]
            base.append(gen.nested_boxes([tags] if self.rng.chance(1, 2) else [["lbl"], tags]))
        ts = []
        for t in base:
            ts.append(t)
            if self.rng.chance(1, 3):
                for _ in range(self.rng.range(1, 2)):
                    ts.append(gen.place(t, self.rng.below(9), self.rng.below(5)))
            if self.rng.chance(1, 8):
                ts.append(t + "\n\n" + gen.place(t, self.rng.range(1, 12), 0))
        ts += [gen.zoo(self.rng) for _ in range(n // 4)]
        self.rng.shuffle(ts)
        ts += [t for _, t in gen.bundled()[: self.scale(3, 8)]]
        return ts

    def correspondence(self):
        dis = []
        cases = [(t, backend.Settings(), "to_svg") for t in self.texts(self.scale(150, 2000))]
        res = backend.run_full(cases)
        for c, r in zip(cases, res):
            self.evaluations += 1
            cmp = backend.compare_outputs(r["impl"], r["model"])
            if cmp == "float":
                self.count("inexact_float")
            if cmp == "different":
                dis.append(Disagreement("L3 full pipeline bytes", {"input": c[0], "input_hex": hx(c[0])},
                                        str(backend.first_difference(r["impl"], r["model"]))[:600], ""))
        return dis

    def search(self, boost=1):
        return self.search_texts(self.texts(self.scale(250, 3000) * boost))

    def oracle_on_texts(self, texts):
        # the suspects twice, at two offsets too: state keyed by shape would show
        return self.search_texts(list(texts) + [gen.place(t, 2, 1) for t in texts[:30]])

    def search_texts(self, texts):
        fails = []
        lines = ["%d to_svg default %s" % (i, hx(t)) for i, t in enumerate(texts)]
        # 1. N fresh processes
        nproc = self.scale(8, 32)
        outs = [run_process(["lib"], lines) for _ in range(nproc)]
        ref = outs[0]
        for i, t in enumerate(texts):
            self.evaluations += 1
            if ref.get(str(i), "").startswith("ok ") and len(ref[str(i)]) > 400:
                self.nontrivial.add(t)
            if i < 2:
                self.sample({"input": t})
            vals = set(o.get(str(i), "noanswer") for o in outs)
            if len(vals) != 1:
                fails.append(Failure("the same input gives different output in different processes", {"input": t, "input_hex": hx(t)},
                                     {"distinct_outputs": len(vals)}))
        self.stats["processes"] = nproc
        # 1b. a sample converted alone, each in its own process: the history-free reference
        solo = list(range(len(texts)))
        self.rng.shuffle(solo)
        for i in solo[: self.scale(60, 600)]:
            o = run_process(["lib"], [lines[i]])
            self.evaluations += 1
            if o.get(str(i)) != ref.get(str(i)):
                fails.append(Failure("output depends on which inputs were converted before", {"input": texts[i], "input_hex": hx(texts[i])},
                                     {"history": "alone in a fresh process vs after %d other inputs" % i}))
        # 2. warm process, shuffled histories
        for rnd in range(self.scale(3, 10)):
            order = list(range(len(texts)))
            self.rng.shuffle(order)
            sub = order[: max(10, len(order) // 2)]
            o = run_process(["lib"], [lines[i] for i in sub] + [lines[i] for i in sub[:20]])
            for i in sub:
                self.evaluations += 1
                if o.get(str(i)) != ref.get(str(i)):
                    fails.append(Failure("output depends on which inputs were converted before", {"input": texts[i], "input_hex": hx(texts[i])},
                                         {"history_length": len(sub)}))
                    break
        # 3. racing threads in fresh processes (first use of the lazily initialised tables)
        # the first inputs are drawings whose grouping takes many passes (buses with 12..40 taps): shared counters,
        # budgets or scratch state inside the merge loops would show when 16 threads work on them at once
        heavy = [gen.bus(k) for k in (40, 24, 12, 40)] + [gen.comb(self.rng) for _ in range(4)]
        ttexts = heavy + texts[:112]
        hlines = ["h%d to_svg default %s" % (i, hx(t)) for i, t in enumerate(ttexts)]
        ref = dict(ref)
        href = run_process(["lib"], hlines)
        for i in range(len(ttexts)):
            ref["h%d" % i] = href.get("h%d" % i)
        tlines = ["h%d %s" % (i, hx(t)) for i, t in enumerate(ttexts)]
        for T in ([2, 16] if self.tier == "quick" else [1, 2, 3, 4, 8, 12, 16]):
            for rep in range(self.scale(2, 6)):
                o = run_process(["threads", str(T)], tlines)
                for i in range(len(tlines)):
                    self.evaluations += 1
                    a = o.get("h%d" % i, "noanswer")
                    if a == "differ" or a != ref.get("h%d" % i):
                        fails.append(Failure("concurrent conversion (%d threads, first use racing) gives a different output" % T,
                                             {"input": ttexts[i], "input_hex": hx(ttexts[i])}, {"answer": a[:40]}))
                        break
        self.stats["thread_counts"] = "2,16" if self.tier == "quick" else "1..16"
        return fails

    def replay_case(self, case):
        return []

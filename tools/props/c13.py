"""C13 — every catalogued circle drawing becomes exactly one matching circle."""
import os
import re
from fractions import Fraction as F

import backend
import common
import gen
import svgcanon
from common import hx, unhx
from runner import PropertyCheck, Failure, Disagreement


def catalogue():
    """the 22 drawings (dedented rows) and their edge case, read from the regenerated table"""
    src = open(os.path.join(common.LEAN, "Svgbob", "Gen", "CircleArt.lean"), encoding="utf-8").read()
    out = []
    for m in re.finditer(r'art := "((?:[^"\\]|\\.)*)",\s*edge := \.(\w+)', src):
        art = m.group(1).encode("utf-8").decode("unicode_escape").encode("latin-1").decode("utf-8")
        rows = [r.rstrip() for r in art.split("\n")]
        rows = [r for r in rows if r.strip()]
        ind = min(len(r) - len(r.lstrip()) for r in rows)
        rows = [r[ind:] for r in rows]
        out.append(("\n".join(rows), m.group(2)))
    return out


class Check(PropertyCheck):
    id = "C13"
    lean_modules = ["Svgbob.Properties.C13"]
    assumptions = [
        "the 22 drawings are regenerated from circle_map.rs on every run; whole-pipeline model tied to the "
        "implementation end to end (bytes)",
    ]

    def rule(self):
        return ("all 22 catalogue drawings x offsets (0..60, 0..40) x optional unrelated content elsewhere (a shape, an arrow, a label "
                "with invisible characters, a page of 34 000 or 67 000 unrelated non-blank cells); oracle: exactly "
                "one circle element and nothing else from the drawing, horizontal extent = drawing extent, radius rule, "
                "every character within about one cell of the circle; non-trivial = every case, distinct by (drawing, offset, extra)")

    def cases(self, n_off):
        cat = catalogue()
        out = []
        for i, (art, edge) in enumerate(cat):
            offs = [(0, 0), (1, 0), (0, 1)] + [(self.rng.below(61), self.rng.below(41)) for _ in range(n_off)]
            for (k, n) in offs:
                extra = self.rng.below(4)
                out.append((i, art, edge, k, n, extra))
            # the drawing on a page with tens of thousands of unrelated non-blank cells (implementation only: the
            # model driver needs minutes for such a page)
            if i % 4 == self.rng.below(4):
                out.append((i, art, edge, self.rng.below(20), 0, 4))
        return out

    @staticmethod
    def build(art, k, n, extra):
        t = gen.place(art, k, n)
        w = max(len(r) for r in art.split("\n"))
        h = len(art.split("\n"))
        if extra == 1:   # far to the right
            rows = t.split("\n")
            rows[n] = rows[n].ljust(k + w + 3) + "+--+ far"
            t = "\n".join(rows)
        elif extra == 2:  # far below
            t = t + "\n\n\n" + " " * k + "*---> below"
        elif extra == 4:  # a very large page: rules of dashes below, more than 2^15 (sometimes 2^16) non-blank cells
            rules = 140 if (k % 3) else 280
            t = t + "\n\n" + "\n\n".join("-" * 240 for _ in range(rules))
        elif extra == 3 and k >= 8:  # a label with invisible characters left of the drawing, on one of its rows
            rows = t.split("\n")
            lab = ["cafe\u0301", "x\ufe0f y", "a\u200bb", "e\u0301"][(k + n) % 4]
            r = n + (h // 2 if (k % 2) else 0)
            rows[r] = lab + rows[r][len(lab):]
            t = "\n".join(rows)
        return t

    @staticmethod
    def lookalike(t, i):
        """same cells, other characters: every drawing character replaced by a letter (even i), or one typo (odd i)"""
        typo = {"(": "[", ")": "]", "_": "=", ".": ":", ",": ";", "'": "!", "`": "x", "/": "Z", "\\": "N", "-": "=", "|": "I"}
        if i % 2 == 0:
            return "".join(c if c in " \n" else "x" for c in t)
        out = list(t)
        idx = [j for j, c in enumerate(out) if c not in " \n"]
        if idx:
            j = idx[(i // 2) % len(idx)]
            out[j] = typo.get(out[j], "x")
        return "".join(out)

    def correspondence(self):
        dis = []
        cases = [(self.build(a, k, n, x), backend.Settings(b=False, s=False, d=False), "settings")
                 for (_, a, _, k, n, x) in self.cases(self.scale(2, 20)) if x != 4]
        res = backend.run_full(cases)
        for c, r in zip(cases, res):
            self.evaluations += 1
            cmp = backend.compare_outputs(r["impl"], r["model"])
            if cmp == "float":
                self.count("inexact_float")
            if cmp == "different":
                dis.append(Disagreement("L3 full pipeline bytes", {"input": c[0], "input_hex": hx(c[0])},
                                        str(backend.first_difference(r["impl"], r["model"]))[:600], ""))
        return dis

    def oracle(self, cases):
        fails = []
        texts = [self.build(a, k, n, x) for (_, a, _, k, n, x) in cases]
        # every fourth drawing is put into a buffer that was rendered before and is filled cell by cell ("mutate"), every
        # fifth into a buffer rendered with other settings first ("reuse"): the circle has to come out all the same
        entry = lambda i, x: "settings" if x == 4 else ("mutate" if i % 4 == 1 else "reuse" if i % 5 == 2 else "settings")
        # before two drawings out of three the same process converts a look-alike standing at the same place with the same
        # outline and the same number of cells (the drawing with a typo, or letters laid out on its outline): what a process
        # converted before must not matter (a memo keyed by position and size would hand the look-alike's cells to the circle)
        lines = []
        for i, t in enumerate(texts):
            if cases[i][5] != 4 and i % 3 != 2:
                lines.append("w%d settings b=0,s=0,d=0 %s" % (i, hx(self.lookalike(t, i))))
            lines.append("%d %s b=0,s=0,d=0 %s" % (i, entry(i, cases[i][5]), hx(t)))
        self.count("lookalike_warmups", sum(1 for l in lines if l.startswith("w")))
        res = common.run_impl("lib", lines)
        for i, (idx, art, edge, k, n, extra) in enumerate(cases):
            self.evaluations += 1
            t = texts[i]
            self.nontrivial.add((idx, k, n, extra))
            case = {"input": t, "input_hex": hx(t), "drawing": idx, "k": k, "n": n, "extra": extra}
            r = res[str(i)]
            if not r.startswith("ok "):
                fails.append(Failure("conversion did not return", case))
                continue
            try:
                root = svgcanon.parse(unhx(r[3:]))
            except svgcanon.ParseError:
                continue
            rows = art.split("\n")
            w = max(len(r_) for r_ in rows)
            h = len(rows)
            # region of the drawing in svg units (scale 8)
            x0, x1, y0, y1 = 8 * k, 8 * (k + w), 16 * n, 16 * (n + h)
            inside = []
            for ing, e in svgcanon.flat_geometry(root):
                a = e.attrs
                if e.tag == "circle":
                    cx, cy = F(a["cx"]), F(a["cy"])
                elif e.tag == "text":
                    cx, cy = F(a["x"]), F(a["y"])
                elif e.tag == "line":
                    cx, cy = (F(a["x1"]) + F(a["x2"])) / 2, (F(a["y1"]) + F(a["y2"])) / 2
                elif e.tag == "rect":
                    cx, cy = F(a["x"]), F(a["y"])
                elif e.tag == "polygon":
                    p = a["points"].split()[0].split(",")
                    cx, cy = F(p[0]), F(p[1])
                elif e.tag == "path":
                    nums = re.findall(r"-?[0-9.]+", a["d"])
                    cx, cy = F(nums[0]), F(nums[1])
                else:
                    continue
                if x0 - 8 <= cx <= x1 + 8 and y0 - 16 <= cy <= y1 + 16:
                    inside.append(e)
            if i < 3:
                self.sample({"drawing": idx, "k": k, "n": n, "extra": extra})
            if len(inside) != 1 or inside[0].tag != "circle":
                fails.append(Failure("drawing %d is not emitted as exactly one circle" % idx, case,
                                     {"elements": [(e.tag, e.attrs) for e in inside][:6]}))
                continue
            c = inside[0].attrs
            cx, cy, rr = F(c["cx"]), F(c["cy"]), F(c["r"])
            # radius rule and horizontal extent (n cells wide: (n-1)/2 cells, or n/2 when flush with a slash)
            if edge == "leftEdge":
                want_r, want_l, want_rgt = F(8 * w, 2), F(x0), F(x1)
            else:
                want_r, want_l, want_rgt = F(8 * (w - 1), 2), F(x0 + 4), F(x1 - 4)
            if rr != want_r or cx - rr != want_l or cx + rr != want_rgt:
                fails.append(Failure("circle of drawing %d has the wrong radius or horizontal extent" % idx, case,
                                     {"cx": str(cx), "r": str(rr), "want_r": str(want_r), "want_left": str(want_l)}))
                continue
            # every character within about one cell (cell diagonal, in svg units: sqrt(8^2+16^2) ~ 17.9)
            bad = None
            for yy, row in enumerate(rows):
                for xx, ch in enumerate(row):
                    if ch != " ":
                        px, py = 8 * (k + xx) + 4, 16 * (n + yy) + 8
                        d2 = (px - cx) ** 2 + (py - cy) ** 2
                        lo = max(F(0), rr - 18)
                        if not (lo ** 2 <= d2 <= (rr + 18) ** 2):
                            bad = (xx, yy, ch)
            if bad:
                fails.append(Failure("a character of drawing %d lies far from the emitted circle" % idx, case, {"char": bad}))
        return fails

    def search(self, boost=1):
        return self.oracle(self.cases(self.scale(12, 200) * boost))

    def replay_case(self, case):
        cat = catalogue()
        i = case["drawing"]
        return self.oracle([(i, cat[i][0], cat[i][1], case["k"], case["n"], case["extra"])])

"""C03 — diagrams of - | + and labels render exactly the strokes the characters denote."""
import itertools
from fractions import Fraction as F

import backend
import common
import gen
import svgcanon
from common import hx, unhx
from runner import PropertyCheck, Failure, Disagreement

LABELS = "abcdefghijklmnpqrstuwyz0123456789"


def spec_strokes(rows):
    """reference renderer (spec.md / the property statement): set of quarter-unit edges
    ((x, y), (x', y')) in quarter units (a cell is 4 wide, 8 high), and the expected texts
    {(col,row): char}"""
    grid = {}
    for y, row in enumerate(rows):
        for x, ch in enumerate(row):
            if ch != " ":
                grid[(x, y)] = ch
    edges = set()
    texts = {}

    def hseg(x0, x1, y):
        for x in range(x0, x1):
            edges.add(((x, y), (x + 1, y)))

    def vseg(x, y0, y1):
        for y in range(y0, y1):
            edges.add(((x, y), (x, y + 1)))

    for (x, y), ch in grid.items():
        X, Y = 4 * x, 8 * y
        up, down = grid.get((x, y - 1)), grid.get((x, y + 1))
        left, right = grid.get((x - 1, y)), grid.get((x + 1, y))
        if ch == "-":
            hseg(X, X + 4, Y + 4)
        elif ch == "|":
            vseg(X + 2, Y, Y + 8)
            if right == "-":
                hseg(X + 2, X + 4, Y + 4)
            if left == "-":
                hseg(X, X + 2, Y + 4)
        elif ch == "+":
            any_ = False
            if up in ("|", "+"):
                vseg(X + 2, Y, Y + 4)
                any_ = True
            if down in ("|", "+"):
                vseg(X + 2, Y + 4, Y + 8)
                any_ = True
            if left in ("-", "+"):
                hseg(X, X + 2, Y + 4)
                any_ = True
            if right in ("-", "+"):
                hseg(X + 2, X + 4, Y + 4)
                any_ = True
            if not any_:
                texts[(x, y)] = "+"
        else:
            texts[(x, y)] = ch
    return edges, texts


def out_strokes(root):
    """quarter-unit edges stroked by line elements and rect outlines (scale 8: one quarter unit = 2);
    returns (edges, off_grid)"""
    edges = set()
    off = []

    def seg(x1, y1, x2, y2):
        q = [v / 2 for v in (x1, y1, x2, y2)]
        if any(v.denominator != 1 for v in q):
            off.append((x1, y1, x2, y2))
            return
        a, b, c, d = [int(v) for v in q]
        if a == c:
            for y in range(min(b, d), max(b, d)):
                edges.add(((a, y), (a, y + 1)))
        elif b == d:
            for x in range(min(a, c), max(a, c)):
                edges.add(((x, b), (x + 1, b)))
        else:
            off.append((x1, y1, x2, y2))

    for ing, e in svgcanon.flat_geometry(root):
        a = e.attrs
        if e.tag == "line":
            seg(F(a["x1"]), F(a["y1"]), F(a["x2"]), F(a["y2"]))
        elif e.tag == "rect":
            x, y, w, h = F(a["x"]), F(a["y"]), F(a["width"]), F(a["height"])
            seg(x, y, x + w, y)
            seg(x, y + h, x + w, y + h)
            seg(x, y, x, y + h)
            seg(x + w, y, x + w, y + h)
        elif e.tag != "text":
            off.append((e.tag,))
    return edges, off


def out_texts(root):
    t = {}
    dup = False
    for ing, e in svgcanon.flat_geometry(root):
        if e.tag == "text":
            cx, cy = (F(e.attrs["x"]) - 2) / 8, (F(e.attrs["y"]) - 12) / 16
            for i, ch in enumerate(e.text):
                k = (int(cx) + i, int(cy))
                if k in t:
                    dup = True
                t[k] = ch
    return t, dup


class Check(PropertyCheck):
    id = "C03"
    lean_modules = ["Svgbob.Properties.C03"]
    assumptions = [
        "whole-pipeline model tied to the implementation end to end (bytes)",
        "the reference renderer of the oracle is written from spec.md / the property statement, independently of the tables",
    ]

    def rule(self):
        return ("all grids over {space,-,|,+}: exhaustive up to 2x3/3x2/1x6 (quick) or 3x3, 2x4, 4x2, 1x8, 8x1 (thorough), random "
                "up to 14x8 with several densities, with and without label characters; oracle: stroke set (lines + rect "
                "outlines as quarter-unit edges) = reference strokes, texts = labels and lone '+'; non-trivial = at least two "
                "drawing characters, distinct by input")

    def grids(self):
        out = []
        shapes = [(2, 3), (3, 2), (1, 6), (6, 1)] if self.tier == "quick" else [(3, 3), (2, 4), (4, 2), (1, 8), (8, 1)]
        for (w, h) in shapes:
            for tup in itertools.product(" -|+", repeat=w * h):
                rows = ["".join(tup[r * w:(r + 1) * w]) for r in range(h)]
                out.append(rows)
        n = self.scale(2500, 40000)
        for _ in range(n):
            w, h = self.rng.range(1, 14), self.rng.range(1, 8)
            alpha = "-|+" + (LABELS[: self.rng.range(1, 8)] if self.rng.chance(1, 2) else "")
            if self.rng.chance(1, 5):
                # label characters whose code point truncated to a byte is a blank or a drawing character
                alpha += self.rng.choice(gen.ALIAS_LABELS) + self.rng.choice(gen.ALIAS_LABELS)
            dens = self.rng.choice([30, 55, 80, 100])
            rows = ["".join(self.rng.choice(alpha) if self.rng.below(100) < dens else " " for _ in range(w)) for _ in range(h)]
            out.append(rows)
        out.append(["|  |", "+--+", "|  |", "+--+", "|  |"])
        # closed boxes with strokes that run across a wall without ending on it (`-|-`, `-+-` in a side wall, `|` through
        # the top or bottom edge), with tails inside and outside the box
        for _ in range(self.scale(150, 2500)):
            w, h = self.rng.range(2, 7), self.rng.range(1, 4)
            rows = gen.place(gen.box(w, h), 3, 2).split("\n")
            rows = [list(r.ljust(w + 8)) for r in rows] + [list(" " * (w + 8)) for _ in range(2)]
            for _ in range(self.rng.range(1, 3)):
                side = self.rng.below(4)
                if side < 2:      # across the left / right wall, on an interior row
                    y = 3 + self.rng.below(h)
                    x = 3 if side == 0 else 3 + w + 1
                    if self.rng.chance(1, 3):
                        rows[y][x] = "+"
                    for dx in range(1, self.rng.range(1, 3) + 1):
                        if 0 <= x - dx < len(rows[y]) and rows[y][x - dx] == " ":
                            rows[y][x - dx] = "-"
                        if x + dx < len(rows[y]) and rows[y][x + dx] == " ":
                            rows[y][x + dx] = "-"
                else:             # through the top / bottom edge, in an interior column
                    x = 4 + self.rng.below(w)
                    y = 2 if side == 2 else 2 + h + 1
                    if self.rng.chance(1, 3):
                        rows[y][x] = "+"
                    for dy in (1, 2):
                        if 0 <= y - dy and rows[y - dy][x] == " ":
                            rows[y - dy][x] = "|"
                        if y + dy < len(rows) and rows[y + dy][x] == " ":
                            rows[y + dy][x] = "|"
            out.append(["".join(r).rstrip() for r in rows])
        # rulers, combs and bar charts: many vertical strokes standing on one base line, also with labels
        for _ in range(self.scale(120, 2000)):
            rows = gen.comb(self.rng, below=self.rng.chance(1, 4)).split("\n")
            if self.rng.chance(1, 3):
                rows.append(" ".join(self.rng.choice(LABELS[:10]) for _ in range(self.rng.range(1, 5))))
            w = max(len(r) for r in rows)
            out.append([r.ljust(w) for r in rows])
        return out

    def correspondence(self):
        dis = []
        gs = self.grids()
        step = max(1, len(gs) // self.scale(1500, 20000))
        cases = [("\n".join(r), backend.Settings(b=False, s=False, d=False), "settings") for r in gs[::step]]
        res = backend.run_full(cases)
        for c, r in zip(cases, res):
            self.evaluations += 1
            cmp = backend.compare_outputs(r["impl"], r["model"])
            if cmp == "float":
                self.count("inexact_float")
            if cmp == "different":
                dis.append(Disagreement("L3 full pipeline bytes", {"input": c[0], "input_hex": hx(c[0])},
                                        str(backend.first_difference(r["impl"], r["model"]))[:600], ""))
        return dis

    def oracle(self, grids):
        fails = []
        texts = ["\n".join(r) for r in grids]
        res = common.run_impl("lib", ["%d settings b=0,s=0,d=0 %s" % (i, hx(t)) for i, t in enumerate(texts)])
        for i, rows in enumerate(grids):
            self.evaluations += 1
            t = texts[i]
            case = {"input": t, "input_hex": hx(t)}
            r = res[str(i)]
            if not r.startswith("ok "):
                fails.append(Failure("conversion did not return", case))
                continue
            try:
                root = svgcanon.parse(unhx(r[3:]))
            except svgcanon.ParseError:
                continue
            want_e, want_t = spec_strokes(rows)
            got_e, off = out_strokes(root)
            got_t, dup = out_texts(root)
            if sum(1 for r_ in rows for c in r_ if c in "-|+") >= 2:
                self.nontrivial.add(t)
            if i < 2:
                self.sample({"input": t})
            if off:
                fails.append(Failure("output has strokes that are not axis-aligned quarter-grid segments", case, {"first": str(off[0])}))
            elif got_e != want_e:
                extra = sorted(got_e - want_e)[:4]
                missing = sorted(want_e - got_e)[:4]
                fails.append(Failure("stroked points differ from the per-character strokes", case,
                                     {"extra_quarter_edges": str(extra), "missing_quarter_edges": str(missing)}))
            elif got_t != want_t or dup:
                fails.append(Failure("label characters / lone '+' are not shown as text in their own cells", case,
                                     {"got": str(sorted(got_t.items())[:6]), "want": str(sorted(want_t.items())[:6])}))
        return fails

    def search(self, boost=1):
        fails = self.oracle(self.grids())
        return fails

    def oracle_on_texts(self, texts):
        # drawings from other generators (suspects of the correspondence, extremes, drawings around changed table entries) are
        # projected onto the alphabet of the property: the layout stays, foreign line characters become `- | +`
        seen, out = set(), []
        for t in texts:
            p = self.extreme_input(t.split("# Legend:")[0].replace('"', "x").replace("\r", "").replace("\t", " "))
            if p is not None and p not in seen:
                seen.add(p)
                out.append(p.split("\n"))
        return self.oracle(out)

    def extreme_input(self, text):
        """project an extreme drawing onto the alphabet of the property: other line characters become `-` / `|` / `+`,
        everything else without a place in the alphabet becomes a label letter (the sizes and the layout stay)"""
        ok = set("-|+ \n") | set("abcdefghijklmnpqrstuwyzABCDEFGHIJKLMNPQRSTUWYZ0123456789") | set(gen.ALIAS_LABELS)
        m = {"_": "-", "~": "-", "=": "-", "/": "|", "\\": "|", ":": "|", "!": "|", ".": "+", ",": "+", "'": "+", "`": "+"}
        t = "".join(c if c in ok else m.get(c, "x") for c in text)
        return t if len(t) <= 40000 else None

    def replay_case(self, case):
        return self.oracle([case["input"].split("\n")])

"""C18 — settings switches and entry points are consistent and leave geometry alone."""
import backend
import common
import gen
import svgcanon
from common import hx, unhx
from runner import PropertyCheck, Failure, Disagreement

STRS = ["red", "#fff", "rgb(1,2,3)", "Arial, sans", "x y", "", "blue;stroke:1", "a<b&c", "url(#q)", "'q'",
        "x;}</style><circle cx=\"40\" cy=\"40\" r=\"30\"></circle><style>.y{", "Fira & Code", "a]]>b", "q\x01\ufffe",
        "</style>", "<g>"]


def canon_tree(e):
    return (e.tag, tuple(sorted(e.attrs.items())), e.text, tuple(canon_tree(c) for c in e.children))


def geometry(root):
    _, _, _, geo = svgcanon.split_root(root)
    return tuple(canon_tree(g) for g in geo)


class Check(PropertyCheck):
    id = "C18"
    thorough_mult = 3
    lean_modules = ["Svgbob.Properties.C18"]
    assumptions = [
        "base style sheet (jss! macro output) captured from the implementation per settings value",
        "equivalence of pretty and compressed output is judged on the parsed documents (expat), "
        "not proved in Lean (no XML reader in the model yet)",
    ]

    def rule(self):
        return ("inputs (random diagrams, bundled blocks) x all 8 include_* combinations x random colour/font/stroke "
                "strings x override sizes x five entry points, inputs incl. quoted texts, tags and legends; non-trivial = base output with at least one geometry "
                "element, distinct by (input)")

    def rand_settings(self, b, s, d):
        r = self.rng
        return backend.Settings(scale=r.choice([8, 8, 1, 10, 0.5]), sw=r.choice([2, 1, 3.5]), fs=r.choice([14, 9, 30]),
                                ff=r.choice(STRS), fill=r.choice(STRS), bg=r.choice(STRS), sc=r.choice(STRS),
                                b=b, s=s, d=d)

    def correspondence(self):
        dis = []
        n = self.scale(150, 2500)
        cases = []
        for _ in range(n):
            t = gen.random_diagram(self.rng, 20, 6)
            sw = self.rng.below(8)
            st = self.rand_settings(bool(sw & 1), bool(sw & 2), bool(sw & 4))
            e = self.rng.choice(["settings", "settings", ("override", self.rng.choice([1.0, 100.5, 640.0, 0.0, -1.0]), self.rng.choice([2.0, 33.25, 0.0, -8.0]))])
            cases.append((t, st, e))
            if self.rng.chance(1, 4):
                cases.append((t, backend.Settings(), self.rng.choice(["to_svg", "pretty", "compressed"])))
        res = backend.run(cases)
        for c, r in zip(cases, res):
            self.evaluations += 1
            cmp = backend.compare_outputs(r["impl"], r["model"])
            if cmp == "float":
                self.count("inexact_float")
            if cmp == "different":
                dis.append(Disagreement("back end bytes", {"input": c[0], "input_hex": hx(c[0]), "settings": c[1].describe(),
                                                          "entry": str(c[2])}, r["model"][:300], r["impl"][:300]))
        dis += self.style_sheet_correspondence()
        return dis

    def style_sheet_correspondence(self):
        """the base style sheet: rendered by the model from the REGENERATED rules of the `jss!` block and the settings,
        compared with the sheet the implementation emits"""
        dis = []
        # the captured sheet went through the escape of the style element, so strings with markup characters or with
        # characters XML cannot carry are left to the whole-document comparison
        plain = [x for x in STRS + ["a\"b", "x y, z", "一", "url(#g)", "transparent", "#0af"]
                 if all(c not in "<>&" and (" " <= c <= "~" or c == "一") for c in x)]
        sts = [backend.Settings(), backend.Settings(sw=1e-3, fs=0, ff="x y", fill="", bg="a;b}", sc="rgb(1,2,3)")]
        sts += [backend.Settings(sw=self.rng.choice([2, 1, 3.5, 0.25, 10, 2.125]), fs=self.rng.choice([14, 9, 30, 1, 100]),
                                 ff=self.rng.choice(plain), fill=self.rng.choice(plain),
                                 bg=self.rng.choice(plain), sc=self.rng.choice(plain))
                for _ in range(self.scale(30, 300))]
        toks = [st.impl_token() for st in sts]
        css0 = common.run_impl("css0", ["%d %s" % (i, t) for i, t in enumerate(toks)], nproc=1)
        fmt = common.run_impl("stylefmt", ["%d %s" % (i, t) for i, t in enumerate(toks)], nproc=1)
        lines = []
        for i, st in enumerate(sts):
            f = fmt[str(i)].split(" ")
            if len(f) != 2:
                f = ["-", "-"]
            lines.append("%d %s %s %s %s %s %s" % (i, hx(st.sc), f[0], hx(st.bg), hx(st.fill), hx(st.ff), f[1]))
        mod = common.run_model("css", lines, nproc=1)
        for i, st in enumerate(sts):
            self.evaluations += 1
            if mod.get(str(i)) != css0.get(str(i)):
                dis.append(Disagreement("base style sheet (regenerated rules of the jss! block)", {"settings": st.describe()},
                                        unhx(mod.get(str(i), "-"))[:300] if mod.get(str(i), "").strip("-") else mod.get(str(i), ""),
                                        unhx(css0.get(str(i), "-"))[:300] if css0.get(str(i), "").strip("-") else css0.get(str(i), "")))
        self.count("style_sheets_compared", len(sts))
        return dis

    def oracle(self, texts):
        fails = []
        lines = []
        metas = []
        for i, t in enumerate(texts):
            base = self.rand_settings(True, True, True)
            other = self.rand_settings(True, True, True)
            other.scale = base.scale
            ow, oh = backend.f32(self.rng.choice([10.0, 123.5, 0.0, -1.0, 640.0])), backend.f32(self.rng.choice([7.0, 64.25, 0.0, 120.0, -2.5]))
            metas.append((base, other, ow, oh))
            for sw in range(8):
                st = backend.Settings(scale=base.scale, sw=base.sw, fs=base.fs, ff=base.ff, fill=base.fill, bg=base.bg,
                                      sc=base.sc, b=bool(sw & 1), s=bool(sw & 2), d=bool(sw & 4))
                lines.append("%d_sw%d settings %s %s" % (i, sw, st.impl_token(), hx(t)))
            lines.append("%d_other settings %s %s" % (i, other.impl_token(), hx(t)))
            lines.append("%d_ov override:%s:%s %s %s" % (i, backend.f32bits(ow), backend.f32bits(oh), base.impl_token(), hx(t)))
            lines.append("%d_tosvg to_svg default %s" % (i, hx(t)))
            lines.append("%d_pretty pretty default %s" % (i, hx(t)))
            lines.append("%d_comp compressed default %s" % (i, hx(t)))
            lines.append("%d_def settings %s %s" % (i, backend.Settings().impl_token(), hx(t)))
        res = common.run_impl("lib", lines)

        def get(i, k):
            r = res["%d_%s" % (i, k)]
            return unhx(r[3:]) if r.startswith("ok ") else None

        for i, t in enumerate(texts):
            self.evaluations += 1
            case = {"input": t, "input_hex": hx(t), "settings": metas[i][0].describe()}
            docs = {}
            ok = True
            for k in ["sw%d" % s for s in range(8)] + ["other", "ov", "tosvg", "pretty", "comp", "def"]:
                svg = get(i, k)
                if svg is None:
                    fails.append(Failure("conversion did not return (%s)" % k, case))
                    ok = False
                    break
                try:
                    docs[k] = (svg, svgcanon.strip_ws_text(svgcanon.parse(svg)))
                except svgcanon.ParseError:
                    ok = False   # C02's concern
                    break
            if not ok:
                continue
            full = docs["sw7"][1]
            g7 = geometry(full)
            if len(g7) > 0:
                self.nontrivial.add(t)
            if i < 3:
                self.sample({"input": t, "settings": metas[i][0].describe()})
            bad = None
            for sw in range(8):
                root = docs["sw%d" % sw][1]
                st, df, bd, _ = svgcanon.split_root(root)
                if (bd is not None) != bool(sw & 1) or (st is not None) != bool(sw & 2) or (df is not None) != bool(sw & 4):
                    bad = "switch combination %d: wrong set of style/defs/backdrop elements" % sw
                elif geometry(root) != g7:
                    bad = "switch combination %d changes the geometry" % sw
                elif canon_tree(root)[1] != canon_tree(full)[1]:
                    bad = "switch combination %d changes the root attributes" % sw
                else:
                    fs, fd, fb, _ = svgcanon.split_root(full)
                    for a, b in ((st, fs), (df, fd), (bd, fb)):
                        if a is not None and canon_tree(a) != canon_tree(b):
                            bad = "switch combination %d changes another optional element" % sw
                if bad:
                    break
            if not bad:
                o = docs["other"][1]
                if geometry(o) != g7:
                    bad = "colour/font/stroke settings change the geometry"
                else:
                    so, do, bo, _ = svgcanon.split_root(o)
                    fs, fd, fb, _ = svgcanon.split_root(full)
                    if canon_tree(do) != canon_tree(fd) or canon_tree(bo) != canon_tree(fb) or canon_tree(o)[1] != canon_tree(full)[1]:
                        bad = "colour/font/stroke settings change something besides the style sheet"
            if not bad:
                o = docs["ov"][1]
                so, do, bo, _ = svgcanon.split_root(o)
                fs, fd, fb, _ = svgcanon.split_root(full)
                ow, oh = metas[i][2], metas[i][3]
                if bo is None or so is None or do is None:
                    bad = "an overridden size removes the backdrop, the style sheet or the defs"
                elif geometry(o) != g7 or canon_tree(so) != canon_tree(fs) or canon_tree(do) != canon_tree(fd):
                    bad = "override size changes more than root and backdrop dimensions"
                elif svgcanon.num(o.attrs["width"]) != svgcanon.Fraction(ow) or svgcanon.num(o.attrs["height"]) != svgcanon.Fraction(oh):
                    bad = "override size not used for the root"
                elif svgcanon.num(bo.attrs["width"]) != svgcanon.Fraction(ow) or svgcanon.num(bo.attrs["height"]) != svgcanon.Fraction(oh):
                    bad = "override size not used for the backdrop"
            if not bad:
                if docs["tosvg"][0] != docs["pretty"][0] or docs["tosvg"][0] != docs["def"][0]:
                    bad = "to_svg differs from the pretty printer with default settings"
                elif canon_tree(docs["comp"][1]) != canon_tree(docs["pretty"][1]):
                    bad = "compressed form is a different document"
                elif ">\n" in docs["comp"][0].split("</style>")[-1]:
                    bad = "compressed form has inter-element whitespace"
            if bad:
                fails.append(Failure(bad, case))
        return fails

    def search(self, boost=1):
        n = self.scale(150, 2500) * boost
        texts = ["+--+\n|ab|\n+--+ *-->", ""] + [gen.random_diagram(self.rng, 20, 6) for _ in range(n)]
        texts += gen.bundled_blocks()[: self.scale(20, 200)]
        # every channel of the input has to come out the same through every entry point: quoted texts, tags, legends
        import props.c15 as c15
        texts += [c15.gen_input(self.rng).replace("{", "(") for _ in range(n // 3)]
        texts += [gen.nested_boxes([["{a}"], [self.rng.choice(["lbl", '"q-|"', "{b,w}"])]]) +
                  self.rng.choice(["", "\n# Legend:\na = {fill:red}\nb = {stroke:blue}\n"]) for _ in range(n // 6)]
        texts += [gen.zoo(self.rng) for _ in range(n // 3)]
        # the very first character of the input is special to some readers: byte-order mark, zero-width space, NUL
        texts += [self.rng.choice(["\ufeff", "\u200b", "\0", "\ufeff\n", " \ufeff"]) + gen.zoo(self.rng) for _ in range(max(4, n // 10))]
        texts += ["\ufeff+------+\n| box  |---->\n+------+\n"]
        # siblings back to back: the same cells, other content inside a quoted label or another legend declaration
        # (one process converts them one after the other through every entry point)
        out = []
        for t in texts:
            out.append(t)
            sib = gen.sibling(t, self.rng)
            if sib is not None:
                out.append(sib)
        return self.oracle(out)

    def oracle_on_texts(self, texts):
        return self.oracle(texts)

    def replay_case(self, case):
        return self.oracle([case["input"]])

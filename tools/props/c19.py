"""C19 — the CLI writes what the library computes and reports success truthfully."""
import os
import shutil
import subprocess
import tempfile

import backend
import common
import gen
from common import hx, unhx
from runner import PropertyCheck, Failure, Disagreement

STRS = ["red", "#fff", "rgb(1,2,3)", "Arial", "x y", "blue"]


class Check(PropertyCheck):
    id = "C19"
    zoo = False
    lean_modules = ["Svgbob.Properties.C19"]
    assumptions = [
        "clap's argv parsing, Rust's number parsing, the file system and process exit are outside the model "
        "(parameters of `cliMain`); the binary is built from a scratch copy of /repo's working tree",
        "the expected document is computed by the library called in process with the settings the options denote",
    ]

    def rule(self):
        return ("random subsets of {--background, --fill-color, --font-family, --font-size, --stroke-width, --stroke-color, "
                "--scale, -o, -s} with random values x inputs x {file, stdin, inline}; `build` over random directories; "
                "error cases (missing file, unparsable number, unwritable output); large inputs (4 KiB .. 128 KiB) whose multi-byte "
                "characters straddle a power-of-two byte offset, as file, on stdin and in build mode; non-trivial = successful run with at "
                "least one option, distinct by (argv, input)")

    def prepare(self):
        self.bin, out = common.build_workspace_bin("svgbob_cli")
        return self.bin is not None, out

    def gen_case(self):
        r = self.rng
        opts = {}
        if r.chance(1, 3):
            opts["background"] = r.choice(STRS)
        if r.chance(1, 3):
            opts["fill-color"] = r.choice(STRS)
        if r.chance(1, 3):
            opts["font-family"] = r.choice(STRS)
        if r.chance(1, 3):
            opts["font-size"] = r.choice(["9", "14", "30", "abc", "-1", "1.5"])
        if r.chance(1, 3):
            opts["stroke-width"] = r.choice(["1", "2.5", "3", "x"])
        if r.chance(1, 3):
            opts["stroke-color"] = r.choice(STRS)
        if r.chance(1, 3):
            opts["scale"] = r.choice(["1", "0.5", "2", "1.25", "zz"])
        # "fifo": the file argument is a named pipe a writer fills; "devstdin": the file argument is /dev/stdin fed by a pipe
        # (files that are not regular files: their metadata says size 0, they cannot be sought or mapped)
        mode = r.choice(["file", "stdin", "inline", "file", "missing", "fifo", "devstdin"])
        out = r.choice([None, None, "file", "unwritable", "devfull"])
        text = gen.random_diagram(r, 16, 5).split("# Legend:")[0]
        if mode == "inline":
            text = text.replace("\n", " ").replace("\\", "/").strip() or "a"
            if r.chance(1, 2):
                text = text + "\\n+--+"
            if text.startswith("-"):
                text = "a" + text
        return opts, mode, out, text

    def big_text(self, size):
        """a large, cheap input whose multi-byte characters straddle the byte offset `size` (a power of two: the block
        sizes of buffered readers): blank rows up to a few bytes before the offset, then a label of 2-, 3- and 4-byte
        characters and a small drawing"""
        r = self.rng
        start = size - r.range(1, 3)
        rows, rest = divmod(start, 80)
        pad = (" " * 79 + "\n") * rows + " " * rest
        tail = "\u00e9\u6f22\U0001F642\u00e9\u6f22\U0001F642 ok\n +--+\n | \u00e9|\n +--+\n"
        return pad + tail + (" " * 79 + "\n") * r.range(0, 40) + "\u6f22" * r.range(0, 3) + "\n"

    def big_cases(self):
        cases = []
        for k, size in enumerate([4096, 8192, 16384, 32768, 65536, 65536, 131072, 131072]):
            opts = {"scale": "0.5"} if k % 3 == 0 else {}
            cases.append((opts, "file" if k % 2 == 0 else "stdin", "file" if k % 4 == 1 else None, self.big_text(size)))
        return cases

    def settings_of(self, opts):
        """(Settings for the library, None if an option value is illegal)"""
        st = backend.Settings()
        try:
            if "font-size" in opts:
                v = opts["font-size"]
                if not v.isdigit():
                    return None
                st.fs = int(v)
            if "stroke-width" in opts:
                st.sw = backend.f32(float(opts["stroke-width"]))
            if "scale" in opts:
                st.scale = backend.f32(backend.f32(8.0) * backend.f32(float(opts["scale"])))
        except ValueError:
            return None
        st.bg = opts.get("background", st.bg)
        st.fill = opts.get("fill-color", st.fill)
        st.ff = opts.get("font-family", st.ff)
        st.sc = opts.get("stroke-color", st.sc)
        return st

    def run_case(self, idx, case, tmp):
        opts, mode, out, text = case
        argv = [self.bin]
        for k, v in opts.items():
            argv += ["--" + k, v]
        stdin_data = None
        effective = text
        if mode == "file":
            p = os.path.join(tmp, "in%d.bob" % idx)
            open(p, "w", encoding="utf-8").write(text)
            argv.append(p)
        elif mode == "fifo":
            p = os.path.join(tmp, "pipe%d.bob" % idx)
            os.mkfifo(p)
            fifo_path = p
            argv.append(p)
        elif mode == "devstdin":
            argv.append("/dev/stdin")
            stdin_data = text.encode("utf-8")
        elif mode == "missing":
            argv.append(os.path.join(tmp, "does_not_exist_%d.bob" % idx))
        elif mode == "inline":
            argv += ["-s", text]
            effective = text.replace("\\n", "\n")
        else:
            stdin_data = text.encode("utf-8")
        outp = None
        if out == "file":
            outp = os.path.join(tmp, "out%d.svg" % idx)
            argv += ["-o", outp]
        elif out == "unwritable":
            outp = os.path.join(tmp, "no_such_dir_%d" % idx, "out.svg")
            argv += ["-o", outp]
        elif out == "devfull":
            # opens fine, every write fails (a full disk)
            argv += ["-o", "/dev/full"]
        writer = None
        if mode == "fifo":
            import threading

            def feed(path=fifo_path, data=text.encode("utf-8")):
                try:
                    with open(path, "wb") as f:     # blocks until the tool opens the pipe for reading
                        f.write(data)
                except OSError:
                    pass
            writer = threading.Thread(target=feed, daemon=True)
            writer.start()
        pr = subprocess.run(argv, input=stdin_data if stdin_data is not None else b"", capture_output=True, timeout=60)
        if writer is not None:
            writer.join(0.5)
            if writer.is_alive():
                # the tool ended without opening the pipe (an option was rejected first): release the writer
                try:
                    fd = os.open(fifo_path, os.O_RDONLY | os.O_NONBLOCK)
                    writer.join(2)
                    os.close(fd)
                except OSError:
                    pass
        return argv, pr, outp, effective

    def cases_and_results(self, n):
        tmp = tempfile.mkdtemp(prefix="c19_", dir=common.BUILD)
        try:
            cases = [self.gen_case() for _ in range(n)] + self.big_cases()
            runs = [self.run_case(i, c, tmp) for i, c in enumerate(cases)]
            # expected documents from the library
            lines = []
            for i, (c, (argv, pr, outp, eff)) in enumerate(zip(cases, runs)):
                st = self.settings_of(c[0])
                if st is not None and c[1] != "missing":
                    lines.append("%d settings %s %s" % (i, st.impl_token(), hx(eff)))
            lib = common.run_impl("lib", lines)
            results = []
            for i, (c, (argv, pr, outp, eff)) in enumerate(zip(cases, runs)):
                written = None
                if outp and os.path.exists(outp):
                    written = open(outp, "rb").read()
                results.append((c, argv, pr, outp, eff, lib.get(str(i)), written))
            return results
        finally:
            shutil.rmtree(tmp, ignore_errors=True)

    def judge(self, results):
        fails = []
        dis = []
        mlines = []
        for i, (c, argv, pr, outp, eff, libans, written) in enumerate(results):
            self.evaluations += 1
            opts, mode, out, text = c
            case = {"argv": argv[1:], "mode": mode, "input": text, "input_hex": hx(text)}
            if mode in ("fifo", "devstdin"):
                mode = "file"       # for the property and for the model: a file argument whose content is `text`
            legal = self.settings_of(opts) is not None
            should_succeed = legal and mode != "missing" and out not in ("unwritable", "devfull") and libans is not None and libans.startswith("ok ")
            if should_succeed and opts:
                self.nontrivial.add((tuple(argv[1:]), text))
            if i < 3:
                self.sample({"argv": argv[1:], "mode": mode})
            if should_succeed:
                doc = unhx(libans[3:]).encode("utf-8")
                if pr.returncode != 0:
                    fails.append(Failure("the conversion succeeded but the exit status is %d" % pr.returncode, case,
                                         {"stderr": pr.stderr.decode("utf-8", "replace")[-300:]}))
                elif out is None and pr.stdout != doc + b"\n":
                    fails.append(Failure("standard output is not the library's document followed by a newline", case,
                                         {"stdout_tail": pr.stdout[-120:].decode("utf-8", "replace")}))
                elif out == "file" and (written != doc or pr.stdout != b""):
                    fails.append(Failure("-o did not write the document verbatim (or printed something)", case))
            else:
                if pr.returncode == 0:
                    fails.append(Failure("a failed run reports exit status 0", case, {"stdout": pr.stdout[:200].decode("utf-8", "replace")}))
                elif not pr.stderr.strip():
                    fails.append(Failure("a failed run prints no diagnostic", case))
                elif written is not None or pr.stdout != b"":
                    fails.append(Failure("a failed run leaves output behind", case))
            # model: feed the world's answers
            def num(name, key):
                if key not in opts:
                    return "%s=-" % name
                v = opts[key]
                ok = v.isdigit() if key == "font-size" else _isfloat(v)
                return "%s=%s:%s:%s" % (name, "ok" if ok else "err", hx(v), hx(v if ok else "invalid"))
            if mode == "inline":
                inp = "inline:" + hx(text)
            elif mode == "file":
                inp = "file:%s:ok:%s" % (hx("f"), hx(text))
            elif mode == "missing":
                inp = "file:%s:err:%s" % (hx("f"), hx("No such file"))
            else:
                inp = "stdin:ok:" + hx(text)
            outf = "-" if out is None else ("ok:" + hx("o") if out == "file" else "err:%s:%s" % (hx("o"), hx("denied")))
            # (`-o /dev/full` is a write that fails: for the model the same as an output that cannot be written)
            conv = libans[3:] if (libans and libans.startswith("ok ")) else "panic"
            if libans is None:
                conv = hx("x")
            mlines.append("%d input=%s out=%s %s %s %s bg=%s fill=%s ff=%s stc=%s conv=%s" % (
                i, inp, outf, num("fs", "font-size"), num("sw", "stroke-width"), num("sc", "scale"),
                hx(opts["background"]) if "background" in opts else "-", hx(opts["fill-color"]) if "fill-color" in opts else "-",
                hx(opts["font-family"]) if "font-family" in opts else "-", hx(opts["stroke-color"]) if "stroke-color" in opts else "-", conv))
        mod = common.run_model("cli", mlines)
        for i, (c, argv, pr, outp, eff, libans, written) in enumerate(results):
            m = mod.get(str(i), "noanswer")
            f = dict(kv.split("=", 1) for kv in m.split(" ") if "=" in kv)
            real_exit = pr.returncode
            stdout_hex = hx(pr.stdout.decode("utf-8", "replace"))
            legal = self.settings_of(c[0]) is not None
            ok_model = f.get("exit") == str(real_exit) if real_exit in (0, 1, 2) else f.get("exit") == "101"
            if not ok_model or (legal and f.get("stdout") != stdout_hex) or \
               f.get("written") != ("1" if written is not None else "0"):
                dis.append(Disagreement("CLI model vs binary", {"argv": argv[1:], "mode": c[1]}, m[:200],
                                        "exit=%d stdout=%s written=%s" % (real_exit, stdout_hex[:60], written is not None)))
        return fails, dis

    def build_mode(self):
        """batch mode over random directories"""
        fails = []
        for round_ in range(self.scale(4, 20)):
            tmp = tempfile.mkdtemp(prefix="c19b_", dir=common.BUILD)
            try:
                indir = os.path.join(tmp, "in")
                outdir = os.path.join(tmp, "out")
                os.makedirs(indir)
                files = {}
                stems = ["d%d", "flow.v%d", "net.1.%d", "My-Diagram_%d", "a b %d", "図%d", "x%d.bob", "UP%d", "d%d.tar"]
                for k in range(self.rng.range(1, 6)):
                    t = gen.random_diagram(self.rng, 14, 4)
                    name = (self.rng.choice(stems) % k) + ".bob"
                    files[name] = t
                    open(os.path.join(indir, name), "w", encoding="utf-8").write(t)
                    if self.rng.chance(1, 3) and "." in name[:-4]:
                        # a sibling whose name is the part before the first dot
                        sib = name.split(".")[0] + ".bob"
                        if sib not in files:
                            files[sib] = gen.random_diagram(self.rng, 10, 3)
                            open(os.path.join(indir, sib), "w", encoding="utf-8").write(files[sib])
                if round_ % 2 == 0:
                    files["big%d.bob" % round_] = self.big_text(self.rng.choice([8192, 65536, 131072]))
                    open(os.path.join(indir, "big%d.bob" % round_), "w", encoding="utf-8").write(files["big%d.bob" % round_])
                others = ["notes.txt", "d0.txt", "bob", ".bob", "d1.bob.bak", "README"]
                for o in others:
                    open(os.path.join(indir, o), "w").write("+--+ not a diagram of the batch")
                inplace = self.rng.chance(1, 4)
                argv = [self.bin, "build", "-i", os.path.join(indir, "*.bob")] + ([] if inplace else ["-o", outdir])
                if inplace:
                    outdir = indir
                pr = subprocess.run(argv, capture_output=True, timeout=120)
                self.evaluations += 1
                keys = {n: "f%d" % i for i, n in enumerate(files)}
                lib = common.run_impl("lib", ["%s to_svg default %s" % (keys[n], hx(t)) for n, t in files.items()])
                case = {"argv": ["build", "-i", "in/*.bob"] + ([] if inplace else ["-o", "out"]), "files": files,
                        "other_files": others}
                bad = None
                for n, t in files.items():
                    want = unhx(lib[keys[n]][3:]).encode("utf-8")
                    outp = os.path.join(outdir, n[:-4] + ".svg")
                    if not os.path.exists(outp) or open(outp, "rb").read() != want:
                        bad = "build did not write the library's document for %s" % n
                produced = sorted(f for f in os.listdir(outdir) if f.endswith(".svg")) if os.path.isdir(outdir) else []
                expected = sorted(n[:-4] + ".svg" for n in files)
                if bad is None and produced != expected:
                    bad = "build wrote %d documents for %d matching files (unexpected: %s)" % (
                        len(produced), len(expected), ", ".join(sorted(set(produced) - set(expected)))[:80])
                if bad is None and pr.returncode != 0:
                    bad = "build converted every file but reports exit status %d" % pr.returncode
                if bad:
                    fails.append(Failure(bad, case, {"stdout": pr.stdout.decode("utf-8", "replace")[-300:]}))
            finally:
                shutil.rmtree(tmp, ignore_errors=True)
        # a directory that does not exist must fail
        pr = subprocess.run([self.bin, "build", "-i", "/nonexistent_dir_c19/x/*.bob"], capture_output=True, timeout=60)
        self.evaluations += 1
        if pr.returncode == 0:
            fails.append(Failure("build on a missing directory reports success", {"argv": ["build", "-i", "/nonexistent_dir_c19/x/*.bob"]}))
        return fails

    def correspondence(self):
        ok, out = self.prepare()
        if not ok:
            raise RuntimeError("cannot build svgbob_cli: " + out[-1500:])
        self._results = self.cases_and_results(self.scale(150, 1500))
        self._fails, dis = self.judge(self._results)
        return dis

    def search(self, boost=1):
        if not hasattr(self, "_fails"):
            ok, out = self.prepare()
            if not ok:
                raise RuntimeError("cannot build svgbob_cli: " + out[-1500:])
            self._results = self.cases_and_results(self.scale(150, 1500))
            self._fails, _ = self.judge(self._results)
        return self._fails + self.build_mode()

    def replay_case(self, case):
        return []


def _isfloat(v):
    try:
        float(v)
        return True
    except ValueError:
        return False

"""C09 — straight runs become one line; no two output lines are collinear and touching."""
from fractions import Fraction

import backend
import common
import gen
import svgcanon
from common import hx, unhx
from runner import PropertyCheck, Failure, Disagreement

F = Fraction


def lines_of(root):
    """all line elements (top level and in groups): (x1,y1,x2,y2, classes)"""
    out = []
    for ing, e in svgcanon.flat_geometry(root):
        if e.tag == "line":
            out.append((F(e.attrs["x1"]), F(e.attrs["y1"]), F(e.attrs["x2"]), F(e.attrs["y2"]),
                        tuple(e.attrs.get("class", "").split())))
    return out


def plain(l):
    return all(c in ("solid", "broken") for c in l[4])


def cross(ax, ay, bx, by):
    return ax * by - ay * bx


def on_seg(l, px, py):
    x1, y1, x2, y2 = l[:4]
    if cross(x2 - x1, y2 - y1, px - x1, py - y1) != 0:
        return False
    return min(x1, x2) <= px <= max(x1, x2) and min(y1, y2) <= py <= max(y1, y2)


def collinear_touching(a, b):
    x1, y1, x2, y2 = a[:4]
    if (x1, y1) == (x2, y2) or (b[0], b[1]) == (b[2], b[3]):
        return False  # degenerate (zero-length) lines are C14's concern
    if cross(x2 - x1, y2 - y1, b[0] - x1, b[1] - y1) != 0 or cross(x2 - x1, y2 - y1, b[2] - x1, b[3] - y1) != 0:
        return False
    return on_seg(a, b[0], b[1]) or on_seg(a, b[2], b[3]) or on_seg(b, a[0], a[1]) or on_seg(b, a[2], a[3])


def run_text(ch, n, k, r):
    """a straight run of n characters `ch` starting at column k, row r, and its expected lines in
    cell units ((x1,y1,x2,y2) with y counted in half-cells... returned in svg units at scale 8)"""
    rows = [""] * r
    exp = []
    if ch.startswith("@"):
        # a run mixing solid and dashed pieces on one axis: still one line, dashed because a part of it is
        pat = ch[1:]
        n = len(pat)
        if set(pat) <= set("-~"):
            rows.append(" " * k + pat)
            exp = [(8 * k, 16 * r + 8, 8 * (k + n), 16 * r + 8)]
        else:
            for c in pat:
                rows.append(" " * k + c)
            exp = [(8 * k + 4, 16 * r, 8 * k + 4, 16 * (r + n))]
        return "\n".join(rows), exp, any(c in "~:!" for c in pat)
    if ch in "-~_=─━":
        rows.append(" " * k + ch * n)
        x1, x2 = 8 * k, 8 * (k + n)
        if ch in "-~─━":
            exp = [(x1, 16 * r + 8, x2, 16 * r + 8)]
        elif ch == "_":
            exp = [(x1, 16 * r + 16, x2, 16 * r + 16)]
        else:
            exp = [(x1, 16 * r + 6, x2, 16 * r + 6), (x1, 16 * r + 10, x2, 16 * r + 10)]
    elif ch in "|:!│":
        for i in range(n):
            rows.append(" " * k + ch)
        exp = [(8 * k + 4, 16 * r, 8 * k + 4, 16 * (r + n))]
    elif ch == "\\":
        for i in range(n):
            rows.append(" " * (k + i) + ch)
        exp = [(8 * k, 16 * r, 8 * (k + n), 16 * (r + n))]
    elif ch == "/":
        for i in range(n):
            rows.append(" " * (k + n - 1 - i) + ch)
        exp = [(8 * (k + n), 16 * r, 8 * k, 16 * (r + n))]
    broken = ch in "~:!"
    return "\n".join(rows), exp, broken


def norm(l):
    a, b = (l[0], l[1]), (l[2], l[3])
    return (a, b) if a <= b else (b, a)


class Check(PropertyCheck):
    id = "C09"
    lean_modules = ["Svgbob.Properties.C09"]
    assumptions = [
        "whole-pipeline model tied to the implementation end to end (bytes) and at the endorsement stage (fragments)",
        "f32 geometry of the implementation (parry point-on-segment with relative epsilon) is outside the model; "
        "differences show up as model/implementation disagreements",
    ]

    def rule(self):
        return ("runs of - ~ _ = | : ! / \\ of length 1..L at offsets (bounded-exhaustive per tier) plus the pairwise "
                "oracle on every pair of plain line elements of random grids / bundled blocks; non-trivial = output "
                "with at least two line elements or a run of length >= 2, distinct by input")

    def run_cases(self):
        L = self.scale(60, 400)
        out = []
        for ch in "-~_=|:!/\\":
            lens = list(range(1, 13)) + [self.rng.range(13, L) for _ in range(self.scale(6, 40))] + [L]
            for n in lens:
                for (k, r) in [(0, 0), (self.rng.below(40), self.rng.below(20)), (self.rng.range(40, 400), self.rng.range(20, 200))]:
                    if ch in ":!" and n < 2:
                        continue
                    out.append((ch, n, k, r))
        # runs that change between solid and dashed (either kind first)
        for _ in range(self.scale(40, 400)):
            hor = self.rng.chance(1, 2)
            a, b = ("-", "~") if hor else ("|", self.rng.choice(":!"))
            if self.rng.chance(1, 2):
                a, b = b, a
            pat = ""
            for j in range(self.rng.range(2, 4)):
                pat += (a if j % 2 == 0 else b) * self.rng.range(2, 6)
            out.append(("@" + pat, len(pat), self.rng.below(30), self.rng.below(10)))
        return out

    def correspondence(self):
        dis = []
        texts = [gen.random_diagram(self.rng, 28, 10) for _ in range(self.scale(400, 6000))]
        texts += [run_text(*c)[0] for c in self.run_cases()[:: self.scale(6, 1)]]
        cases = [(t, backend.Settings(b=False, s=False, d=False), "settings") for t in texts]
        res = backend.run_full(cases)
        for c, r in zip(cases, res):
            self.evaluations += 1
            cmp = backend.compare_outputs(r["impl"], r["model"])
            if cmp == "float":
                self.count("inexact_float")
            if cmp == "different":
                dis.append(Disagreement("L3 full pipeline bytes", {"input": c[0], "input_hex": hx(c[0])},
                                        str(backend.first_difference(r["impl"], r["model"]))[:600], ""))
        return dis

    def oracle_runs(self, cases):
        fails = []
        lines = []
        metas = []
        for i, c in enumerate(cases):
            t, exp, broken = run_text(*c)
            metas.append((t, exp, broken))
            lines.append("%d settings b=0,s=0,d=0 %s" % (i, hx(t)))
        res = common.run_impl("lib", lines)
        for i, c in enumerate(cases):
            self.evaluations += 1
            t, exp, broken = metas[i]
            case = {"input": t, "input_hex": hx(t), "run": list(c)}
            r = res[str(i)]
            if not r.startswith("ok "):
                fails.append(Failure("conversion did not return", case))
                continue
            try:
                root = svgcanon.parse(unhx(r[3:]))
            except svgcanon.ParseError:
                continue
            ls = lines_of(root)
            if int(c[1]) >= 2:
                self.nontrivial.add(t)
            got = sorted(norm(l) for l in ls)
            want = sorted(norm(tuple(F(v) for v in e)) for e in exp)
            others = [e for _, e in svgcanon.flat_geometry(root) if e.tag != "line"]
            if got != want or others:
                fails.append(Failure("run of %d %r at (%d,%d) is not one line spanning the run" % (c[1], c[0], c[2], c[3]), case,
                                     {"got": [[str(v) for v in l[:4]] for l in ls][:6], "want": exp,
                                      "other_elements": [e.tag for e in others][:5]}))
            elif any(("broken" in l[4]) != broken for l in ls):
                fails.append(Failure("dashed flag of the run is wrong", case))
        return fails

    def oracle_pairs(self, texts):
        fails = []
        res = common.run_impl("lib", ["%d settings b=0,s=0,d=0 %s" % (i, hx(t)) for i, t in enumerate(texts)])
        for i, t in enumerate(texts):
            self.evaluations += 1
            r = res[str(i)]
            case = {"input": t, "input_hex": hx(t)}
            if not r.startswith("ok "):
                continue
            try:
                root = svgcanon.parse(unhx(r[3:]))
            except svgcanon.ParseError:
                continue
            ls = [l for l in lines_of(root) if plain(l)]
            if len(ls) >= 2:
                self.nontrivial.add(t)
            if i < 3:
                self.sample({"input": t, "lines": len(ls)})
            bad = None
            for a in range(len(ls)):
                for b in range(a + 1, len(ls)):
                    if norm(ls[a]) == norm(ls[b]):
                        bad = ("the same line twice", ls[a], ls[b])
                    elif collinear_touching(ls[a], ls[b]):
                        bad = ("two plain lines are collinear and touching", ls[a], ls[b])
                    if bad:
                        break
                if bad:
                    break
            if bad:
                fails.append(Failure(bad[0], case, {"a": [str(v) for v in bad[1][:4]], "b": [str(v) for v in bad[2][:4]]}))
        return fails

    def shared_carriers(self, n):
        """straight lines fed from two text rows or two text columns: the lower edge of a row is drawn by `_`, the upper
        edge of the next row by `‾` `¯` `▔`; the right edge of a column by `▕`, the left edge of the next by `▏`; pieces on
        both sides overlap, contain each other, continue each other or leave gaps — in an order that is not the reading
        order of one row. Also `-`/`─`/`━`-like mixes on one row and `|` `│` mixes in one column."""
        r = self.rng
        out = []
        for _ in range(n):
            k = r.below(4)
            w = r.range(3, 12)
            if k == 0:
                # one unbroken run on one side of the carrier, one or two short runs on the other side: strictly inside it,
                # across one of its ends, at its ends, next to it
                L, a = r.range(3, 10), r.range(0, 3)
                long_ch, short_ch = r.choice([("‾", "_"), ("¯", "_"), ("_", "‾"), ("▔", "_"), ("_", "¯")])
                long_row = " " * a + long_ch * L
                short = [" "] * (a + L + 3)
                for _ in range(r.range(1, 2)):
                    p0, ln = r.range(0, a + L), r.range(1, 3)
                    for q in range(p0, min(len(short), p0 + ln)):
                        short[q] = short_ch
                short_row = "".join(short).rstrip()
                rows = [short_row, long_row] if short_ch == "_" else [long_row, short_row]
            elif k == 1:
                top = "".join(r.choice("_ _ _" if r.chance(1, 2) else "__ ") for _ in range(w))
                low = "".join(r.choice(r.choice(["‾ ‾‾", "¯¯ ", "▔ ▔", "‾¯ "])) for _ in range(w))
                rows = [top.rstrip(), low.rstrip()]
                if r.chance(1, 3):
                    rows.append("".join(r.choice("_ ") for _ in range(w)).rstrip())
            elif k == 2:
                h = r.range(3, 8)
                rows = []
                for _ in range(h):
                    rows.append((r.choice("▕ ▕ ") + r.choice("▏ ▏ ")).rstrip())
            else:
                rows = ["".join(r.choice("-─ _‾") for _ in range(w)).rstrip(),
                        "".join(r.choice("‾¯_ -") for _ in range(w)).rstrip()]
            t = "\n".join(rows)
            if t.strip():
                out.append(gen.place(t, r.below(4), r.below(3)))
        return out

    def search(self, boost=1):
        fails = self.oracle_runs(self.run_cases())
        n = self.scale(1500, 25000) * boost
        texts = [gen.random_diagram(self.rng, 28, 10) for _ in range(n)] + gen.bundled_blocks()
        texts += [gen.zoo(self.rng) for _ in range(n // 4)]
        texts += self.shared_carriers(n // 6)
        fails += self.oracle_pairs(texts)
        if fails and "run" not in fails[0].case:
            fails = [self.shrink(fails[0])] + fails[1:]
        return fails

    def shrink(self, f):
        t = f.case["input"]
        budget = 120
        changed = True
        while changed and budget > 0:
            changed = False
            rows = t.split("\n")
            cands = ["\n".join(rows[:i] + rows[i + 1:]) for i in range(len(rows))] if len(rows) > 1 else []
            cands += [t[:i] + " " + t[i + 1:] for i in range(len(t)) if t[i] not in " \n"][:80]
            for c in cands:
                budget -= 1
                if budget <= 0:
                    break
                r = self.oracle_pairs([c])
                if r:
                    t, f, changed = c, r[0], True
                    break
        return f

    def oracle_on_texts(self, texts):
        return self.oracle_pairs(texts)

    def replay_case(self, case):
        if "run" in case:
            return self.oracle_runs([tuple(case["run"])])
        return self.oracle_pairs([case["input"]])

"""C12 — the canvas has one cell of margin and contains everything that is drawn."""
import re
from fractions import Fraction as F

import backend
import common
import gen
import svgcanon
from common import hx, unhx
from props.c15 import blank_text, widths_of, cols
from runner import PropertyCheck, Failure, Disagreement

NUMS = re.compile(r"-?[0-9]+(?:\.[0-9]+)?")


def occupied(text, wd, ws):
    """(maxcol, maxrow) of the occupied cells of a legend-free text, None if empty: independent
    computation from the characters' display widths"""
    b, _ = blank_text(text, wd)
    mc = mr = None
    for y, row in enumerate(b.split("\n")):
        col = 0
        for ch in row:
            is_ws = ws.get(ord(ch), False)
            if not is_ws and ch != "\0":
                mc = col if mc is None else max(mc, col)
                mr = y if mr is None else max(mr, y)
            col += cols(ch, wd)
    return (mc, mr) if mc is not None else None


def extent(e):
    """list of (x, y) points an element certainly covers"""
    a = e.attrs
    t = e.tag
    if t == "line":
        return [(F(a["x1"]), F(a["y1"])), (F(a["x2"]), F(a["y2"]))]
    if t == "rect":
        return [(F(a["x"]), F(a["y"])), (F(a["x"]) + F(a["width"]), F(a["y"]) + F(a["height"]))]
    if t == "circle":
        cx, cy, r = F(a["cx"]), F(a["cy"]), F(a["r"])
        return [(cx - r, cy - r), (cx + r, cy + r)]
    if t == "polygon":
        return [tuple(F(v) for v in p.split(",")) for p in a["points"].split()]
    if t == "path":
        n = [F(v) for v in NUMS.findall(a["d"])]
        return [(n[0], n[1]), (n[-2], n[-1])]
    if t == "text":
        return [(F(a["x"]), F(a["y"]))]
    return []


class Check(PropertyCheck):
    id = "C12"
    thorough_mult = 3
    lean_modules = ["Svgbob.Properties.C12"]
    assumptions = [
        "whole-pipeline model tied to the implementation end to end (bytes)",
        "containment of merged/endorsed shapes is checked on the implementation's output (oracle); the theorems "
        "cover the canvas formula, the guarded table rows and the catalogue circles",
        "arc bulge beyond the chord's endpoints is not measured by the oracle",
    ]

    def rule(self):
        return ("legend-free inputs: random grids over the full alphabet incl. wide characters and glyphs, quoted "
                "text at the right/bottom edge, shapes at column/row 0, all scales; non-trivial = non-empty drawing, "
                "distinct by input")

    def texts(self, n):
        out = ["", " ", "a", '\n    "+----------+"\n    "|          |"\n    "+----------+"\n    ', "一二",
               "/\n", "V", ".-\n|", "<-", "^\n|", " (_)"]
        for _ in range(n):
            t = gen.random_diagram(self.rng, 22, 8).split("# Legend:")[0]
            if self.rng.chance(1, 6):
                t += '\n' + " " * self.rng.below(30) + '"' + "edge text " * self.rng.range(1, 3) + '"'
            if self.rng.chance(1, 8):
                t += "\n" + "".join(self.rng.choice(gen.CJK + "ab |-") for _ in range(self.rng.range(1, 12)))
            out.append(t)
        out += [gen.zoo(self.rng, legend=False) for _ in range(n // 4)]   # the oracle measures the rows of the whole text
        return out

    def correspondence(self):
        dis = []
        cases = []
        for t in self.texts(self.scale(300, 5000)):
            st = backend.Settings(scale=self.rng.choice([8, 8, 1, 0.5, 10, 37.5]), b=self.rng.chance(1, 2), s=False, d=False)
            cases.append((t, st, "settings"))
        res = backend.run_full(cases)
        for c, r in zip(cases, res):
            self.evaluations += 1
            cmp = backend.compare_outputs(r["impl"], r["model"])
            if cmp == "float":
                self.count("inexact_float")
            if cmp == "different":
                dis.append(Disagreement("L3 full pipeline bytes", {"input": c[0], "input_hex": hx(c[0]), "settings": c[1].describe()},
                                        str(backend.first_difference(r["impl"], r["model"]))[:600], ""))
        return dis

    def oracle(self, texts, entries=None):
        fails = []
        envs = common.env_tables(texts)
        scales = [self.rng.choice([8.0, 8.0, 1.0, 0.5, 10.0, 20.0, 37.5]) for _ in texts]
        # every third drawing is rendered from a CellBuffer that was rendered with other settings before ("reuse")
        entries = entries or ["reuse" if i % 3 == 2 else "settings" for i in range(len(texts))]
        lines = ["%d %s scale=%s,b=1,s=0,d=0 %s" % (i, entries[i], backend.f32bits(scales[i]), hx(t)) for i, t in enumerate(texts)]
        res = common.run_impl("lib", lines)
        for i, t in enumerate(texts):
            self.evaluations += 1
            case = {"input": t, "input_hex": hx(t), "scale": scales[i], "entry": entries[i]}
            r = res[str(i)]
            if not r.startswith("ok "):
                fails.append(Failure("conversion did not return", case))
                continue
            try:
                root = svgcanon.parse(unhx(r[3:]))
            except svgcanon.ParseError:
                continue
            wd_ws = {}
            for e in envs[i][4:].split(","):
                cp, w, ws, _ = e.split(":")
                wd_ws[int(cp)] = (int(w), ws == "1")
            wd = {k: v for k, v in wd_ws.items()}
            wsd = {k: v[1] for k, v in wd_ws.items()}
            occ = occupied(t, wd, wsd)
            sc = F(scales[i])
            if occ is None:
                ew, eh = 2 * sc, 4 * sc
            else:
                self.nontrivial.add(t)
                ew, eh = sc * (occ[0] + 2), 2 * sc * (occ[1] + 2)
            w, h = F(root.attrs["width"]), F(root.attrs["height"])
            if i < 3:
                self.sample({"input": t, "scale": scales[i], "canvas": [str(w), str(h)]})
            # beyond 2^24 an f32 no longer holds every integer (row 300 005 at scale 37.5 gives a height of 22 500 525,
            # printed 22500524): accept two units in the last place of an f32 there, and only there
            def close(got, want):
                return got == want or (abs(want) >= (1 << 23) and abs(got - want) <= abs(want) / (1 << 22))
            if not (close(w, ew) and close(h, eh)):
                fails.append(Failure("canvas is not one cell larger than the last occupied cell", case,
                                     {"got": [str(w), str(h)], "want": [str(ew), str(eh)]}))
                continue
            _, _, bd, geo = svgcanon.split_root(root)
            if bd is None or F(bd.attrs["width"]) != w or F(bd.attrs["height"]) != h:
                fails.append(Failure("backdrop does not cover the canvas", case))
                continue
            _, segs = blank_text(t, wd)
            quoted = set(s[2] for s in segs)
            outside = []
            for ing, e in svgcanon.flat_geometry(root):
                for (x, y) in extent(e):
                    if x < 0 or y < 0 or x > w or y > h:
                        outside.append(e)
                        break
            if outside:
                only_quoted = all(e.tag == "text" and e.text in quoted for e in outside)
                e = outside[0]
                fails.append(Failure("an element lies outside the canvas", case,
                                     {"element": e.tag, "attrs": e.attrs, "text": e.text, "canvas": [str(w), str(h)]},
                                     cls="quoted_text_outside_canvas" if only_quoted else None))
        return fails

    def search(self, boost=1):
        return self.oracle(self.texts(self.scale(1500, 25000) * boost))

    def oracle_on_texts(self, texts):
        return self.oracle([t for t in texts if "# Legend:" not in t])

    def replay_case(self, case):
        return self.oracle([case["input"]], [case.get("entry", "settings")])

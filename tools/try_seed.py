#!/usr/bin/env python3
"""apply a seeded change to /repo, run the given checks (default: the seed's own property), undo it.
usage: try_seed.py seeded/<id> [C01 C02 ...]"""
import json
import os
import subprocess
import sys

VERIF = os.path.dirname(os.path.dirname(os.path.abspath(__file__)))


def main():
    d = os.path.abspath(sys.argv[1])
    meta = json.load(open(os.path.join(d, "meta.json")))
    props = sys.argv[2:] or [meta["property"]]
    st = subprocess.run(["git", "-C", "/repo", "status", "--porcelain"], capture_output=True, text=True).stdout
    if st.strip():
        print("refusing: /repo is not clean:\n" + st)
        return 2
    subprocess.run(["git", "-C", "/repo", "apply", os.path.join(d, "patch.diff")], check=True)
    results = {}
    try:
        for p in props:
            r = subprocess.run([os.path.join(VERIF, "check"), p], capture_output=True, text=True, cwd=VERIF)
            lines = [l for l in r.stdout.splitlines() if l.strip()]
            results[p] = {"exit": r.returncode, "lines": lines[-3:]}
            print(p, "exit", r.returncode)
            for l in lines[-3:]:
                print("   ", l[:300])
    finally:
        subprocess.run(["git", "-C", "/repo", "checkout", "--", "."], check=True)
        # the generated tables in /verif were regenerated from the patched tree: bring them back to the unchanged tree, so
        # that a commit made now does not record a seeded table as the reference copy
        # ... and the evidence files written by the runs against the patched tree are not evidence about the unchanged tree
        subprocess.run(["git", "-C", VERIF, "checkout", "--", "evidence"])
        subprocess.run([sys.executable, os.path.join(VERIF, "tools", "gen_tables.py"), "/repo",
                        os.path.join(VERIF, "lean", "Svgbob", "Gen")], stdout=subprocess.DEVNULL)
    return 0


if __name__ == "__main__":
    sys.exit(main())

"""Shared machinery of the svgbob verification checks (see /verif/DESIGN.md section 2).

Everything a check needs lives under /verif; build output under /verif/.build.
"""
import fcntl
import hashlib
import json
import os
import re
import subprocess
import sys
import time

VERIF = os.path.dirname(os.path.dirname(os.path.abspath(__file__)))
REPO = os.environ.get("VERIF_REPO", "/repo")
BUILD = os.path.join(VERIF, ".build")
LEAN = os.path.join(VERIF, "lean")
HARNESS_BIN = os.path.join(BUILD, "target", "release", "svgbob_harness")
MODEL_BIN = os.path.join(LEAN, ".lake", "build", "bin", "svgbob_model")
NCPU = os.cpu_count() or 4
ALLOWED_AXIOMS = {"propext", "Classical.choice", "Quot.sound"}


def log(*a):
    print(*a, file=sys.stderr, flush=True)


# ----------------------------------------------------------------------------
# deterministic PRNG (SplitMix64): every random choice of a run derives from VERIF_SEED


class Rng:
    def __init__(self, seed):
        self.s = seed & 0xFFFFFFFFFFFFFFFF

    def next(self):
        self.s = (self.s + 0x9E3779B97F4A7C15) & 0xFFFFFFFFFFFFFFFF
        z = self.s
        z = ((z ^ (z >> 30)) * 0xBF58476D1CE4E5B9) & 0xFFFFFFFFFFFFFFFF
        z = ((z ^ (z >> 27)) * 0x94D049BB133111EB) & 0xFFFFFFFFFFFFFFFF
        return z ^ (z >> 31)

    def below(self, n):
        return self.next() % n if n > 0 else 0

    def range(self, lo, hi):
        """inclusive"""
        return lo + self.below(hi - lo + 1)

    def choice(self, seq):
        return seq[self.below(len(seq))]

    def chance(self, num, den):
        return self.below(den) < num

    def fork(self, label):
        h = hashlib.sha256((str(self.s) + ":" + label).encode()).digest()
        return Rng(int.from_bytes(h[:8], "big"))

    def shuffle(self, l):
        for i in range(len(l) - 1, 0, -1):
            j = self.below(i + 1)
            l[i], l[j] = l[j], l[i]


def seed_from_env():
    try:
        return int(os.environ.get("VERIF_SEED", "1"))
    except ValueError:
        return 1


# ----------------------------------------------------------------------------
# hex helpers (the line protocol carries every string hex encoded)


def hx(s):
    b = s.encode("utf-8") if isinstance(s, str) else s
    return b.hex() if b else "-"


def unhx(h):
    return "" if h == "-" else bytes.fromhex(h).decode("utf-8")


def unhx_bytes(h):
    return b"" if h == "-" else bytes.fromhex(h)


# ----------------------------------------------------------------------------
# building


def sh(cmd, cwd=None, env=None, timeout=None, check=False):
    e = dict(os.environ)
    e["CARGO_NET_OFFLINE"] = "true"
    if env:
        e.update(env)
    p = subprocess.run(
        cmd, cwd=cwd, env=e, shell=isinstance(cmd, str), stdout=subprocess.PIPE,
        stderr=subprocess.STDOUT, timeout=timeout, text=True, errors="replace")
    if check and p.returncode != 0:
        raise RuntimeError("command failed: %s\n%s" % (cmd, p.stdout[-4000:]))
    return p.returncode, p.stdout


class Lock:
    """one preparation at a time (checks may be started concurrently)"""

    def __init__(self, name="prepare.lock"):
        os.makedirs(BUILD, exist_ok=True)
        self.path = os.path.join(BUILD, name)

    def __enter__(self):
        self.f = open(self.path, "w")
        fcntl.flock(self.f, fcntl.LOCK_EX)
        return self

    def __exit__(self, *a):
        fcntl.flock(self.f, fcntl.LOCK_UN)
        self.f.close()


def build_harness():
    """cargo build of the harness against /repo's working tree (feature verif).
    Returns (ok, output)."""
    with Lock("cargo.lock"):
        # the lock file is copied from /repo so that the cached crates resolve offline
        src = os.path.join(REPO, "Cargo.lock")
        dst = os.path.join(VERIF, "harness", "Cargo.lock")
        if not os.path.exists(dst):
            import shutil
            shutil.copy(src, dst)
        rc, out = sh(["cargo", "build", "--release", "--offline"],
                     cwd=os.path.join(VERIF, "harness"), timeout=1800)
    return rc == 0, out


def gen_tables():
    """regenerate lean/Svgbob/Gen/*.lean from /repo (translator). Returns (ok, output)."""
    gen = os.path.join(VERIF, "tools", "gen_tables.py")
    if not os.path.exists(gen):
        return True, ""
    rc, out = sh([sys.executable, gen, REPO, os.path.join(LEAN, "Svgbob", "Gen")], timeout=600)
    return rc == 0, out


def changed_table_chars():
    """characters whose entry in the regenerated tables differs from the committed reference copy (git HEAD of /verif):
    where the tables moved is where the search for a failing input should look first"""
    import re
    out = []
    for name, pat in (("AsciiTable.lean", r"\{ ch := '((?:\\.|[^'\\])+)',"), ("UnicodeTable.lean", r"^  \('((?:\\.|[^'\\])+)',")):
        path = os.path.join(LEAN, "Svgbob", "Gen", name)
        try:
            cur = open(path, encoding="utf-8").read()
        except OSError:
            continue
        rc, ref = sh(["git", "-C", VERIF, "show", "HEAD:lean/Svgbob/Gen/" + name], timeout=60)
        if rc != 0:
            continue

        def entries(src):
            d = {}
            ms = list(re.finditer(pat, src, re.M))
            for i, m in enumerate(ms):
                end = ms[i + 1].start() if i + 1 < len(ms) else len(src)
                d[m.group(1)] = d.get(m.group(1), "") + src[m.start():end]
            return d
        a, b = entries(cur), entries(ref)
        for k in list(a) + [k for k in b if k not in a]:
            if a.get(k) != b.get(k):
                ch = {"\\\\": "\\", "\\'": "'"}.get(k, k)
                if len(ch) == 1 and ch not in out:
                    out.append(ch)
    return out


def table_glyphs():
    """the characters of the regenerated Unicode table"""
    import re
    try:
        src = open(os.path.join(LEAN, "Svgbob", "Gen", "UnicodeTable.lean"), encoding="utf-8").read()
    except OSError:
        return ""
    out = []
    for m in re.finditer(r"^  \('((?:\\.|[^'\\])+)',", src, re.M):
        ch = {"\\\\": "\\", "\\'": "'"}.get(m.group(1), m.group(1))
        if len(ch) == 1 and ch not in out:
            out.append(ch)
    return "".join(out)


def reference_model_bin():
    """the model driver built with the COMMITTED reference copy of the generated tables (git HEAD of /verif) instead of
    the regenerated ones — only when the regenerated tables differ from that copy. Where this driver and the
    implementation disagree is where the behaviour of the tables changed. None when nothing changed or it cannot be built."""
    import hashlib
    import shutil
    if not changed_table_chars():
        return None
    names = ["AsciiTable.lean", "UnicodeTable.lean", "CircleArt.lean", "Consts.lean", "Thresholds.lean", "StyleSheet.lean"]
    ref = {}
    for n in names:
        rc, txt = sh(["git", "-C", VERIF, "show", "HEAD:lean/Svgbob/Gen/" + n], timeout=60)
        if rc != 0:
            return None
        ref[n] = txt
    h = hashlib.sha256()
    for n in names:
        h.update(ref[n].encode("utf-8"))
    for root, _, files in os.walk(os.path.join(LEAN, "Svgbob", "Model")):
        for f in sorted(files):
            h.update(open(os.path.join(root, f), "rb").read())
    h.update(open(os.path.join(LEAN, "Driver.lean"), "rb").read())
    d = os.path.join(BUILD, "refmodel")
    binp = os.path.join(d, ".lake", "build", "bin", "svgbob_model")
    stamp = os.path.join(d, "stamp")
    with Lock("refmodel.lock"):
        if os.path.exists(binp) and os.path.exists(stamp) and open(stamp).read() == h.hexdigest():
            return binp
        shutil.rmtree(d, ignore_errors=True)
        os.makedirs(os.path.join(d, "Svgbob"))
        for f in ("lakefile.toml", "Driver.lean"):
            shutil.copy(os.path.join(LEAN, f), os.path.join(d, f))
        for sub in ("Model", "Spec"):
            shutil.copytree(os.path.join(LEAN, "Svgbob", sub), os.path.join(d, "Svgbob", sub))
        os.makedirs(os.path.join(d, "Svgbob", "Gen"))
        for n in names:
            open(os.path.join(d, "Svgbob", "Gen", n), "w", encoding="utf-8").write(ref[n])
        open(os.path.join(d, "Svgbob.lean"), "w").write("import Svgbob.Model.Convert\n")
        rc, out = sh(["lake", "build", "svgbob_model"], cwd=d, timeout=1800)
        if rc != 0 or not os.path.exists(binp):
            return None
        open(stamp, "w").write(h.hexdigest())
        return binp


def lake_build(targets):
    with Lock("lake.lock"):
        rc, out = sh(["lake", "build"] + list(targets), cwd=LEAN, timeout=3600)
    return rc == 0, out


def failing_decls(lake_output):
    """names of files/lines that failed, for the replay of a broken proof obligation"""
    errs = []
    for m in re.finditer(r"^error: ([^\n]+)", lake_output, re.M):
        errs.append(m.group(1)[:300])
    return errs[:40]


def theorem_names(module_file):
    """theorems declared in a Properties file, with their namespace prefix"""
    src = open(module_file, encoding="utf-8").read()
    # block comments (doc comments included) are prose: drop them, keeping the line structure
    src = re.sub(r"/-.*?-/", lambda m: "\n" * m.group(0).count("\n"), src, flags=re.S)
    ns = []
    names = []
    for line in src.splitlines():
        m = re.match(r"^namespace\s+(\S+)", line)
        if m:
            ns.append(m.group(1))
            continue
        m = re.match(r"^end\s+(\S+)", line)
        if m and ns and ns[-1] == m.group(1):
            ns.pop()
            continue
        m = re.match(r"^(?:@\[[^\]]*\]\s*)?(?:protected\s+|private\s+)?theorem\s+(\S+)", line)
        if m:
            names.append(".".join(ns + [m.group(1)]))
    return names


def audit_axioms(module, names):
    """`#print axioms` for every name; returns {name: [axioms]} (None = could not be printed)"""
    os.makedirs(os.path.join(BUILD, "audit"), exist_ok=True)
    f = os.path.join(BUILD, "audit", module.replace(".", "_") + ".lean")
    with open(f, "w") as fh:
        fh.write("import %s\n" % module)
        for n in names:
            fh.write("#print axioms %s\n" % n)
    rc, out = sh(["lake", "env", "lean", f], cwd=LEAN, timeout=1800)
    res = {}
    # output blocks: "'name' depends on axioms: [a, b]" or "'name' does not depend on any axioms"
    flat = re.sub(r"\s+", " ", out)
    for n in names:
        m = re.search(r"'%s' depends on axioms: \[([^\]]*)\]" % re.escape(n), flat)
        if m:
            res[n] = [a.strip() for a in m.group(1).split(",") if a.strip()]
        elif re.search(r"'%s' does not depend on any axioms" % re.escape(n), flat):
            res[n] = []
        else:
            res[n] = None
    return res, out


FORBIDDEN = re.compile(
    r"\bsorry\b|\badmit\b|^\s*axiom\s|native_decide|bv_decide|implemented_by|\bunsafe\s|maxHeartbeats\s+0|^\s*partial\s+def",
    re.M)


def strip_lean_comments(src):
    # remove block comments (nested not handled beyond one level) and line comments
    src = re.sub(r"/-.*?-/", "", src, flags=re.S)
    src = re.sub(r"--[^\n]*", "", src)
    return src


def grep_forbidden():
    """scan model and proofs (not the driver, whose IO loop is `partial`)"""
    hits = []
    root = os.path.join(LEAN, "Svgbob")
    for d, _, files in os.walk(root):
        for fn in files:
            if fn.endswith(".lean"):
                p = os.path.join(d, fn)
                src = strip_lean_comments(open(p, encoding="utf-8").read())
                for m in FORBIDDEN.finditer(src):
                    hits.append("%s: %s" % (os.path.relpath(p, LEAN), m.group(0).strip()))
    return hits


# ----------------------------------------------------------------------------
# running implementation and model on case files


_PREAMBLE = None


def lib_preamble():
    """conversions every library process performs before the cases it is asked about: the property C07 says that what a
    process converted before cannot matter, so this can only make a difference on a tree with hidden state (memo tables,
    "last hit" hints, pooled buffers). Label characters whose truncated code point is a blank or a drawing character next
    to strokes, circle pairs, composed drawings."""
    global _PREAMBLE
    if _PREAMBLE is None:
        import gen
        r = Rng(12345)
        texts = [tpl for a in gen.ALIAS for tpl in (a + "|\n |", " " + a + "\n+", "a\n|" + a + "\n|\nb", a + "-" + a,
                                                    "-" + a + "\n" + a + "+", a + "\n|", "+" + a)]
        # every arrow head, bullet and corner character with such a glyph as its only neighbour, in each of the eight places
        for g in gen.ALIAS_GLYPHS:
            for c in "vV^<>oO*+.'":
                for (dx, dy) in ((-1, -1), (0, -1), (1, -1), (-1, 0), (1, 0), (-1, 1), (0, 1), (1, 1)):
                    rows = [[" "] * 3 for _ in range(3)]
                    rows[1][1] = c
                    rows[1 + dy][1 + dx] = g
                    texts.append("\n".join("".join(row).rstrip() for row in rows))
        texts += [gen.circle_pair(r) for _ in range(8)] + ["()", "(_)", "*--", "+--+\n|{a}|\n+--+\n# Legend:\na = {fill:red}\n"]
        texts += [gen.zoo(r) for _ in range(12)]
        _PREAMBLE = ["pre%d to_svg default %s" % (i, hx(t)) for i, t in enumerate(texts)]
    return _PREAMBLE


def _run_lines(binary, mode, lines, timeout, nproc=None, extra_env=None, stall=None, preamble=None):
    """feeds `lines` (list of str, each starting with a unique id) to `binary mode`, in parallel
    chunks; returns dict id -> rest of the answer line. The binaries answer one line per case, in order, flushed.
    A chunk that stops answering for `stall` seconds (a hang) or whose process dies (an abort) is cut at the first
    unanswered case: that case gets 'noanswer' and the rest of the chunk is fed to a fresh process, so that one
    hanging input costs `stall` seconds and is identified exactly."""
    if not lines:
        return {}
    import threading
    import time as _time
    nproc = nproc or min(NCPU, max(1, len(lines) // 50))
    # contiguous blocks: neighbours in `lines` are converted one after the other by one process (a process keeps whatever
    # hidden state a tree may have between them; checks place related inputs next to each other on purpose)
    per = (len(lines) + nproc - 1) // nproc
    chunks = [lines[i * per:(i + 1) * per] for i in range(nproc)]
    chunks = [c for c in chunks if c]
    e = dict(os.environ)
    if extra_env:
        e.update(extra_env)
    stall = stall if stall is not None else min(timeout, 30)
    res = {}
    lock = threading.Lock()

    def run_chunk(ch):
        todo = list(ch)
        t_end = _time.time() + timeout
        restarts = 0
        pre = list(preamble or [])
        while todo:
            p = subprocess.Popen([binary, mode], stdin=subprocess.PIPE, stdout=subprocess.PIPE,
                                 stderr=subprocess.DEVNULL, env=e)
            state = {"last": _time.time(), "n": 0}

            def writer():
                try:
                    p.stdin.write(("\n".join(pre + todo) + "\n").encode())
                    p.stdin.close()
                except (BrokenPipeError, OSError, ValueError):
                    pass

            def reader():
                for raw in p.stdout:
                    if not raw.endswith(b"\n"):
                        continue        # a line cut off by the death of the process is no answer
                    l = raw.decode("utf-8", "replace").rstrip("\n")
                    sp = l.split(" ", 1)
                    with lock:
                        if len(sp) == 2:
                            res[sp[0]] = sp[1]
                        elif len(sp) == 1 and sp[0]:
                            res[sp[0]] = ""
                    state["last"] = _time.time()
                    state["n"] += 1

            tw = threading.Thread(target=writer, daemon=True)
            tr = threading.Thread(target=reader, daemon=True)
            tw.start()
            tr.start()
            while tr.is_alive():
                tr.join(0.25)
                now = _time.time()
                if tr.is_alive() and (now - state["last"] > stall or now > t_end):
                    p.kill()
                    tr.join(5)
                    break
            try:
                p.kill()
            except OSError:
                pass
            p.wait()
            with lock:
                rest = [l for l in todo if l.split(" ", 1)[0] not in res]
            if not rest:
                break
            # the first unanswered case is the one the process hung or died on
            with lock:
                res[rest[0].split(" ", 1)[0]] = "noanswer"
            todo = rest[1:]
            restarts += 1
            if _time.time() > t_end or restarts > 200:
                break

    ths = [threading.Thread(target=run_chunk, args=(ch,)) for ch in chunks]
    for t in ths:
        t.start()
    for t in ths:
        t.join()
    out = {}
    for l in lines:
        i = l.split(" ", 1)[0]
        out[i] = res.get(i, "noanswer")
    return out        # (answers to the preamble are not part of the result)


def run_impl(mode, lines, timeout=600, nproc=None, stall=None):
    return _run_lines(HARNESS_BIN, mode, lines, timeout, nproc, stall=stall,
                      preamble=lib_preamble() if mode == "lib" else None)


def run_model(mode, lines, timeout=600, nproc=None, stall=None, binary=None):
    return _run_lines(binary or MODEL_BIN, mode, lines, timeout, nproc, stall=stall)


def env_tables(inputs):
    """asks the real crates (unicode-width, char::is_whitespace) for the table of every input;
    returns list of 'env=...' tokens in the same order"""
    lines = ["%d %s" % (i, hx(s)) for i, s in enumerate(inputs)]
    res = run_impl("env", lines)
    return [res[str(i)] for i in range(len(inputs))]


# ----------------------------------------------------------------------------
# known findings, replays, evidence


def load_known():
    p = os.path.join(VERIF, "KNOWN_FINDINGS.json")
    if not os.path.exists(p):
        return {"findings": [], "fixed": []}
    return json.load(open(p))


def write_replay(prop, payload):
    os.makedirs(os.path.join(VERIF, "replays"), exist_ok=True)
    blob = json.dumps(payload, sort_keys=True, ensure_ascii=False)
    h = hashlib.sha256(blob.encode()).hexdigest()[:12]
    path = os.path.join(VERIF, "replays", "%s-%s.json" % (prop, h))
    with open(path, "w") as f:
        json.dump(payload, f, indent=1, sort_keys=True, ensure_ascii=False)
    return path


def write_evidence(prop, tier, seed, coverage, wall_s, violations, assumptions):
    os.makedirs(os.path.join(VERIF, "evidence"), exist_ok=True)
    ev = {
        "property_id": prop,
        "tier": tier,
        "seed": seed,
        "level": "proof",
        "coverage": coverage,
        "assumptions": assumptions,
        "wall_s": round(wall_s, 2),
        "violations": violations,
    }
    with open(os.path.join(VERIF, "evidence", prop + ".json"), "w") as f:
        json.dump(ev, f, indent=1, ensure_ascii=False)
    return ev


# ----------------------------------------------------------------------------
# binaries of the workspace (CLI, server): built from a scratch copy of /repo's working tree,
# because any cargo command run inside the /repo workspace rewrites /repo/Cargo.lock


def build_workspace_bin(pkg):
    """returns (path to the release binary or None, build output)"""
    import shutil
    import tempfile
    with Lock("cargo-ws.lock"):
        src = tempfile.mkdtemp(prefix="svgbob_ws_", dir="/tmp")
        try:
            rc, out = sh(["rsync", "-a", "--exclude", "target", "--exclude", ".git", REPO + "/", src + "/"], timeout=600)
            if rc != 0:
                return None, out
            tgt = os.path.join(BUILD, "ws_target")
            rc, out = sh(["cargo", "build", "--release", "--offline", "-p", pkg], cwd=src,
                         env={"CARGO_TARGET_DIR": tgt}, timeout=3600)
            if rc != 0:
                return None, out
            binp = os.path.join(tgt, "release", pkg)
            return (binp if os.path.exists(binp) else None), out
        finally:
            shutil.rmtree(src, ignore_errors=True)

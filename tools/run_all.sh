#!/bin/sh
# run the quick check of every claimed property; prints one summary line per check
cd "$(dirname "$0")/.."
rc=0
for id in $(python3 -c "import json;print(' '.join(c['property_id'] for c in json.load(open('MANIFEST.json'))['checks']))"); do
  ./check $id "$@" | tail -3 || rc=1
done
exit $rc

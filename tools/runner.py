"""Generic flow of one check (DESIGN.md 2.4):

regenerate Gen/ -> lake build the property's theorems (+ axiom audit) -> cargo build harness
-> correspondence (model vs implementation) -> search (oracle on implementation outputs)
-> decide, write evidence, print VIOLATION / KNOWN-FINDING lines.
"""
import json
import os
import sys
import time
import traceback

import common
from common import log


class Failure:
    """an implementation output on which the property's oracle is false"""

    def __init__(self, what, case, detail=None, cls=None):
        self.what = what          # short text
        self.case = case          # dict: input(s), settings, entry ... enough to replay
        self.detail = detail or {}
        self.cls = cls            # classifier name this failure satisfies (or None)


class Disagreement:
    """model and implementation differ on an observable of the property"""

    def __init__(self, level, case, model, impl):
        self.level = level
        self.case = case
        self.model = model
        self.impl = impl


class PropertyCheck:
    id = "C00"
    lean_modules = []          # modules holding the theorems (Svgbob.Properties.Cxx)
    extra_theorem_files = []   # further files whose theorems count as obligations
    assumptions = []

    def __init__(self, tier, seed):
        self.tier = tier
        self.seed = seed
        self.rng = common.Rng(seed).fork(self.id)
        self.stats = {}
        self.samples = []
        self.evaluations = 0
        self.nontrivial = set()

    # ---- to be provided by the property -------------------------------------
    def correspondence(self):
        """returns list of Disagreement"""
        return []

    def search(self, boost=1):
        """returns list of Failure"""
        return []

    def replay_case(self, case):
        """re-run one stored case; returns list of Failure"""
        return []

    def rule(self):
        return ""

    # ---- the shared zoo -------------------------------------------------------
    # every check of a library property also compares model and implementation byte for byte on drawings composed
    # by the shared feature generator (gen.zoo): a change of behaviour anywhere in the pipeline shows up here even
    # when the property's own generators do not reach it
    zoo = True

    def zoo_correspondence(self, n):
        import backend
        import gen
        from common import hx
        cases = []
        ext = gen.extremes_list(self.rng, max(40, n // 3))
        for i in range(n + len(ext)):
            # composed drawings, then drawings at the ends of the size axes (gen.extremes)
            t = gen.zoo(self.rng) if i < n else ext[i - n]
            sib = gen.sibling(t, self.rng) if i < n else None
            if sib is not None:
                # the drawing and a sibling that differs only inside a quoted label / in the legend, back to back in one
                # process and through the same entry point
                e = self.rng.choice(["to_svg", "compressed", "pretty"])
                cases.append((t, backend.Settings(), e))
                cases.append((sib, backend.Settings(), e))
            elif self.rng.chance(1, 2):
                cases.append((t, backend.Settings(), self.rng.choice(["to_svg", "compressed"])))
            else:
                cases.append((t, backend.Settings(scale=self.rng.choice([8, 1, 0.5, 10]), b=self.rng.chance(1, 2),
                                                  s=self.rng.chance(1, 2), d=self.rng.chance(1, 2)),
                              # "reuse": one CellBuffer rendered with other settings first (public API), then with these
                              # "mutate": the buffer is filled cell by cell between renderings (quote- and legend-free input)
                              ("mutate" if ('"' not in t and "# Legend:" not in t and self.rng.chance(1, 2)) else "reuse")
                              if self.rng.chance(1, 3) else "settings"))
        dis = []
        for c, r in zip(cases, backend.run_full(cases)):
            self.evaluations += 1
            cmp = backend.compare_outputs(r["impl"], r["model"])
            if cmp == "float":
                self.count("inexact_float")
            if cmp == "different":
                dis.append(Disagreement("L3 full pipeline bytes (zoo)", {"input": c[0], "input_hex": hx(c[0]), "entry": str(c[2])},
                                        str(backend.first_difference(r["impl"], r["model"]))[:600], ""))
        self.count("zoo_cases", len(cases))
        return dis

    def extreme_input(self, text):
        """adapt (or drop: None) an extreme drawing for this property's oracle"""
        return text

    # ---- helpers --------------------------------------------------------------
    # thorough-tier multiplier for case counts (values of 2000 and more are counts in every check)
    thorough_mult = 1

    def scale(self, quick, thorough):
        if self.tier != "thorough":
            return quick
        return thorough * self.thorough_mult if thorough >= 2000 else thorough

    def count(self, key, n=1):
        self.stats[key] = self.stats.get(key, 0) + n

    def sample(self, s, limit=6):
        if len(self.samples) < limit:
            self.samples.append(s)


def classify(prop, failure, known):
    for f in known.get("findings", []):
        if f.get("property") == prop and failure.cls is not None and f.get("class") == failure.cls:
            return f
    return None


def run_check(check_cls, argv):
    tier = os.environ.get("VERIF_TIER", "quick")
    replay = None
    i = 0
    while i < len(argv):
        if argv[i] == "--tier":
            tier = argv[i + 1]
            i += 2
        elif argv[i] == "--replay":
            replay = argv[i + 1]
            i += 2
        else:
            i += 1
    if tier not in ("quick", "thorough"):
        tier = "quick"
    seed = common.seed_from_env()
    t0 = time.time()
    chk = check_cls(tier, seed)
    pid = chk.id
    known = common.load_known()
    broken = []          # proof obligations / builds that no longer check
    obligations = []
    discharged = []
    axioms_seen = set()

    # 1. translator
    ok, out = common.gen_tables()
    if not ok:
        broken.append({"obligation": "table translation (tools/gen_tables.py)", "output": out[-3000:]})

    # 2. theorems
    mods = list(chk.lean_modules)
    ok, out = common.lake_build(mods + ["svgbob_model"])
    if not ok:
        broken.append({"obligation": "lake build " + " ".join(mods),
                       "errors": common.failing_decls(out)})
    thm_files = [os.path.join(common.LEAN, m.replace(".", "/") + ".lean") for m in mods]
    for m, f in zip(mods, thm_files):
        names = common.theorem_names(f)
        obligations += names
        if ok:
            ax, aout = common.audit_axioms(m, names)
            for n in names:
                a = ax.get(n)
                if a is None:
                    broken.append({"obligation": n, "errors": ["#print axioms failed"], "output": aout[-1500:]})
                elif set(a) - common.ALLOWED_AXIOMS:
                    broken.append({"obligation": n, "errors": ["non-standard axioms: %s" % a]})
                else:
                    discharged.append(n)
                    axioms_seen |= set(a)
    hits = common.grep_forbidden()
    if hits:
        broken.append({"obligation": "no sorry/axiom/native_decide in model or proofs", "errors": hits})
    if tier == "thorough" and ok:
        for m in mods:
            rc, lout = common.sh(["lake", "env", "leanchecker", m], cwd=common.LEAN, timeout=3600)
            chk.stats["leanchecker:" + m] = "ok" if rc == 0 else "FAILED"
            if rc != 0:
                broken.append({"obligation": "leanchecker " + m, "output": lout[-1500:]})

    # 3. implementation
    okh, outh = common.build_harness()
    if not okh:
        broken.append({"obligation": "cargo build of the harness against /repo (feature verif)",
                       "output": outh[-3000:]})

    failures = []
    disagreements = []
    if okh:
        if replay:
            case = json.load(open(replay))
            failures = chk.replay_case(case.get("case", case))
        else:
            try:
                if ok:
                    disagreements = chk.correspondence()
                    if chk.zoo:
                        disagreements = list(disagreements) + chk.zoo_correspondence(chk.scale(120, 2000))
                boost = 4 if (broken or disagreements) else 1
                failures = chk.search(boost=boost)
                # the inputs on which model and implementation differ are where the behaviour changed: the
                # property's oracle is asked about exactly those inputs too
                suspects = []
                for d in disagreements:
                    t = d.case.get("input") if isinstance(d.case, dict) else None
                    if isinstance(t, str) and t not in suspects:
                        suspects.append(t)
                if suspects and hasattr(chk, "oracle_on_texts"):
                    failures = list(failures) + list(chk.oracle_on_texts(suspects[:80]))
                # where the regenerated tables differ from the committed reference copy: small drawings around exactly
                # those characters go to the property's oracle
                hot = common.changed_table_chars()
                if hot and hasattr(chk, "oracle_on_texts"):
                    import gen
                    around = gen.around(chk.rng, hot[:6], chk.scale(200, 2000))
                    chk.count("inputs_around_changed_table_entries", len(around))
                    failures = list(failures) + list(chk.oracle_on_texts(around))
                    # the model driver built with the committed reference copy of the tables says what these small drawings
                    # looked like before the tables moved: where the implementation now differs from it, the behaviour of a
                    # table entry changed — those drawings go to the oracle once more as suspects, and the difference
                    # itself is a broken tie (model of the committed tables vs implementation)
                    if chk.zoo:
                        refbin = common.reference_model_bin()
                        if refbin:
                            import backend
                            cases = [(t, backend.Settings(b=False, s=False, d=False), "settings") for t in around]
                            res = backend.run_full(cases, model_bin=refbin)
                            moved = [c[0] for c, r in zip(cases, res)
                                     if backend.compare_outputs(r["impl"], r["model"]) == "different"]
                            chk.count("drawings_that_changed_with_the_tables", len(moved))
                            if moved:
                                failures = list(failures) + list(chk.oracle_on_texts(moved[:200]))
                                for t in moved[:3]:
                                    disagreements = list(disagreements) + [Disagreement(
                                        "tables: implementation vs the model with the committed reference tables",
                                        {"input": t, "input_hex": common.hx(t)}, "", "")]
                # drawings at the ends of the size axes go to the property's own oracle as well
                if chk.zoo and hasattr(chk, "oracle_on_texts"):
                    import gen
                    ext = [chk.extreme_input(t) for t in gen.extremes_list(chk.rng, chk.scale(60, 600))]
                    ext = [t for t in ext if t is not None]
                    chk.count("extreme_inputs", len(ext))
                    failures = list(failures) + list(chk.oracle_on_texts(ext))
                # differences between the model side and the implementation noticed while searching
                disagreements = list(disagreements) + list(getattr(chk, "late_disagreements", []))
            except Exception:
                broken.append({"obligation": "check machinery ran to completion",
                               "errors": [traceback.format_exc()[-3000:]]})

    # 4. decide
    rc = 0
    lines = []
    unlisted = []
    listed = {}
    for f in failures:
        kf = classify(pid, f, known)
        if kf is not None:
            listed.setdefault(kf["id"], (kf, f))
        else:
            unlisted.append(f)
    for kid, (kf, f) in listed.items():
        lines.append("KNOWN-FINDING: property=%s %s (%s)" % (pid, kf.get("what", kid), kid))
    if unlisted:
        f = unlisted[0]
        path = common.write_replay(pid, {
            "property": pid, "kind": "failing-input", "what": f.what, "case": f.case,
            "detail": f.detail, "seed": seed, "tier": tier,
            "other_failures": [{"what": g.what, "case": g.case} for g in unlisted[1:6]],
            "replay_cmd": "./check %s --replay <this file>" % pid})
        lines.append("VIOLATION property=%s replay=%s" % (pid, path))
        rc = 1
    elif broken or disagreements:
        payload = {
            "property": pid, "kind": "no-failing-input-found", "seed": seed, "tier": tier,
            "broken_obligations": broken,
            "disagreements": [{"level": d.level, "case": d.case, "model": d.model, "impl": d.impl}
                              for d in disagreements[:10]],
            "note": "a theorem or the model/implementation correspondence no longer checks; the "
                    "search found no input on which the property's oracle fails on the implementation"}
        path = common.write_replay(pid, payload)
        lines.append("VIOLATION property=%s replay=%s no-failing-input-found" % (pid, path))
        rc = 1

    wall = time.time() - t0
    coverage = {
        "obligations": len(obligations),
        "discharged": len(discharged),
        "checker_cmd": "cd /verif/lean && lake build %s && lake env lean .build/audit (#print axioms)%s"
                       % (" ".join(mods), " && lake env leanchecker" if tier == "thorough" else ""),
        "trusted_base": ["Lean 4 kernel", "axioms: " + ", ".join(sorted(axioms_seen))] + chk.assumptions,
        "theorems": obligations,
        "broken": [b.get("obligation") for b in broken],
        "evaluations": chk.evaluations,
        "distinct_nontrivial": len(chk.nontrivial),
        "rule": chk.rule(),
        "samples": chk.samples,
        "disagreements_model_vs_impl": len(disagreements),
        "oracle_failures_on_impl": len(failures),
        "known_findings_seen": sorted(listed.keys()),
        "stats": chk.stats,
    }
    common.write_evidence(pid, tier, seed, coverage, wall, len(unlisted), chk.assumptions)
    for l in lines:
        print(l)
    print("%s %s: obligations %d/%d, evaluations %d, disagreements %d, failures %d (unlisted %d), %.1fs"
          % (pid, tier, len(discharged), len(obligations), chk.evaluations, len(disagreements),
             len(failures), len(unlisted), wall))
    sys.stdout.flush()
    return rc

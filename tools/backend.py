"""Back-end correspondence: model (fragments -> SVG string) vs implementation.

For every (input, settings, entry) the implementation's endorsement-stage result (hook), its front-end
dump and its base style sheet are fed to the Lean model of scaling, containment forest, node building
and serialisation; the model's string is compared with the implementation's final string."""
import struct
from fractions import Fraction
from math import gcd

import common
from common import hx, unhx


def f32(x):
    return struct.unpack("f", struct.pack("f", x))[0]


def f32bits(x):
    return "x%08x" % struct.unpack("I", struct.pack("f", x))[0]


class Settings:
    def __init__(self, scale=8.0, sw=2.0, fs=14, ff="Iosevka Fixed, monospace", fill="black", bg="white",
                 sc="black", b=True, s=True, d=True):
        self.scale = f32(scale)
        self.sw = f32(sw)
        self.fs = fs
        self.ff = ff
        self.fill = fill
        self.bg = bg
        self.sc = sc
        self.b = b
        self.s = s
        self.d = d

    def impl_token(self):
        return "scale=%s,sw=%s,fs=%d,ff=%s,fill=%s,bg=%s,sc=%s,b=%d,s=%d,d=%d" % (
            f32bits(self.scale), f32bits(self.sw), self.fs, hx(self.ff), hx(self.fill), hx(self.bg), hx(self.sc),
            self.b, self.s, self.d)

    def model_token(self, override=None):
        fr = Fraction(self.scale)
        n, d = fr.numerator, fr.denominator
        tok = ""
        if override is not None:
            w, h = Fraction(f32(override[0])), Fraction(f32(override[1]))
            # common denominator D with scale = N/D and w*1000*D, h*1000*D integers
            D = d
            for q in (w * 1000, h * 1000):
                D = D * q.denominator // gcd(D, q.denominator)
            n = n * (D // d)
            d = D
            tok = ",ow=%d,oh=%d" % (w * 1000 * d, h * 1000 * d)
        return "scale=%d/%d,b=%d,s=%d,d=%d%s" % (n, d, self.b, self.s, self.d, tok)

    def describe(self):
        return self.impl_token()


def entry_pretty(entry):
    return "compressed" if entry == "compressed" else "pretty"


def run(cases):
    """cases: list of (input, Settings, entry) with entry in to_svg|pretty|compressed|settings|('override',w,h).
    For to_svg/pretty/compressed the settings must be the defaults.
    Returns list of dicts {impl, model, front, mid} (strings; impl/model = svg text or error marker)."""
    n = len(cases)
    ids = [str(i) for i in range(n)]
    front = common.run_impl("front", ["%s %s" % (i, hx(c[0])) for i, c in zip(ids, cases)])
    mid = common.run_impl("mid", ["%s %s" % (i, hx(c[0])) for i, c in zip(ids, cases)])
    # base style sheets, one per distinct settings token
    toks = sorted(set(c[1].impl_token() for c in cases))
    css0 = common.run_impl("css0", ["%d %s" % (i, t) for i, t in enumerate(toks)], nproc=1)
    css0_of = {t: css0[str(i)] for i, t in enumerate(toks)}
    lib_lines = []
    model_lines = []
    envs = common.env_tables([c[0] for c in cases])
    for (i, (inp, st, entry)), env in zip(zip(ids, cases), envs):
        if isinstance(entry, tuple):
            e = "override:%s:%s" % (f32bits(entry[1]), f32bits(entry[2]))
            mt = st.model_token((entry[1], entry[2]))
        else:
            e = entry
            mt = st.model_token()
        lib_lines.append("%s %s %s %s" % (i, e, st.impl_token(), hx(inp)))
        f = front[i]
        m = mid[i]
        if f.startswith("cells=") and m.startswith("frags="):
            cells, esc, css = f.split(" ")
            frags, groups = m.split(" ")
            model_lines.append("%s %s %s %s %s %s %s %s %s" % (
                i, entry_pretty(entry if not isinstance(entry, tuple) else "settings"), mt,
                css0_of[st.impl_token()], cells, css, frags, groups, env))
    lib = common.run_impl("lib", lib_lines)
    mod = common.run_model("back", model_lines)
    out = []
    for i in ids:
        out.append({"impl": lib.get(i, "noanswer"), "model": mod.get(i, "skipped"), "front": front[i], "mid": mid[i]})
    return out


def run_full(cases, model_bin=None):
    """end-to-end correspondence: the whole model (front end, middle, back end) against the library.
    cases as in run(); returns list of dicts {impl, model}"""
    n = len(cases)
    ids = [str(i) for i in range(n)]
    toks = sorted(set(c[1].impl_token() for c in cases))
    css0 = common.run_impl("css0", ["%d %s" % (i, t) for i, t in enumerate(toks)], nproc=1)
    css0_of = {t: css0[str(i)] for i, t in enumerate(toks)}
    envs = common.env_tables([c[0] for c in cases])
    lib_lines = []
    model_lines = []
    for i, (inp, st, entry), env in zip(ids, cases, envs):
        if isinstance(entry, tuple):
            e = "override:%s:%s" % (f32bits(entry[1]), f32bits(entry[2]))
            mt = st.model_token((entry[1], entry[2]))
            pr = "pretty"
        else:
            e = entry
            mt = st.model_token()
            pr = entry_pretty(entry)
        lib_lines.append("%s %s %s %s" % (i, e, st.impl_token(), hx(inp)))
        model_lines.append("%s %s %s %s %s %s" % (i, pr, mt, css0_of[st.impl_token()], hx(inp), env))
    lib = common.run_impl("lib", lib_lines)
    mod = common.run_model("full", model_lines, timeout=1800, binary=model_bin)
    return [{"impl": lib.get(i, "noanswer"), "model": mod.get(i, "noanswer")} for i in ids]


def first_difference(a, b, width=90):
    """human-readable first difference of two `ok <hex>` answers"""
    if a.startswith("ok ") and b.startswith("ok "):
        x, y = unhx(a[3:]), unhx(b[3:])
        for i, (p, q) in enumerate(zip(x, y)):
            if p != q:
                return {"at": i, "impl": x[max(0, i - width):i + width], "model": y[max(0, i - width):i + width]}
        return {"at": min(len(x), len(y)), "impl_len": len(x), "model_len": len(y)}
    return {"impl": a[:200], "model": b[:200]}


import re as _re
from fractions import Fraction as _F

_NUMTOK = _re.compile(r"-?[0-9]+(?:\.[0-9]+)?")


def compare_outputs(a, b):
    """'equal' (same bytes), 'float' (same text up to the decimal rendering of numbers that are not
    exactly representable in f32: every number agrees to 2^-18 relative), or 'different'"""
    if a == b:
        return "equal"
    if not (a.startswith("ok ") and b.startswith("ok ")):
        return "different"
    x, y = unhx(a[3:]), unhx(b[3:])
    if _NUMTOK.sub("#", x) != _NUMTOK.sub("#", y):
        return "different"
    for p, q in zip(_NUMTOK.findall(x), _NUMTOK.findall(y)):
        if p != q:
            u, v = _F(p), _F(q)
            if abs(u - v) > _F(1, 2 ** 18) * max(abs(u), abs(v), 1):
                return "different"
    return "float"

#!/bin/sh
# confirm a seeded change to a binary crate: suite passes with it, demo.sh exits 1 with it and 0 without it
# usage: confirm_seed_bin.sh <dir with patch.diff and demo.sh>
set -u
D="$1"
W=/tmp/seedchk_bin
export CARGO_NET_OFFLINE=true   # demos look for the binaries under <worktree>/target, so no CARGO_TARGET_DIR here
git -C /repo worktree remove --force $W 2>/dev/null
git -C /repo worktree add -q --detach $W HEAD || exit 2
cd $W
if ! git apply "$D/patch.diff"; then echo "RESULT patch-does-not-apply"; git -C /repo worktree remove --force $W; exit 1; fi
echo "== suite with the change"
cargo test --workspace --no-fail-fast --offline 2>&1 | grep -E "^test result|error(\[|:)" | head -8
echo "== demo with the change (expect exit 1)"
bash "$D/demo.sh" $W > /tmp/seedchk_bin_demo1.log 2>&1; echo "exit $?"; tail -3 /tmp/seedchk_bin_demo1.log
git apply -R "$D/patch.diff"
echo "== demo without the change (expect exit 0)"
bash "$D/demo.sh" $W > /tmp/seedchk_bin_demo0.log 2>&1; echo "exit $?"; tail -3 /tmp/seedchk_bin_demo0.log
cd /; git -C /repo worktree remove --force $W; rm -rf /tmp/seedchk_bin_demo?.log

#!/bin/sh
# confirm a seeded change: compiles, existing suite passes with it, demo fails with it and passes without it
# usage: confirm_seed.sh <dir with patch.diff and demo.rs>
set -u
D="$1"
W=/tmp/seedchk
export CARGO_NET_OFFLINE=true CARGO_TARGET_DIR=/tmp/seedchk_target
git -C /repo worktree remove --force $W 2>/dev/null
git -C /repo worktree add -q --detach $W HEAD || exit 2
cd $W
if ! git apply "$D/patch.diff"; then echo "RESULT patch-does-not-apply"; git -C /repo worktree remove --force $W; exit 1; fi
echo "== suite with the change"
cargo test --workspace --no-fail-fast --offline 2>&1 | grep -E "^test result|error(\[|:)" | head -8
cp "$D/demo.rs" crates/svgbob/tests/zz_seed_demo.rs
echo "== demo with the change (expect failure)"
cargo test --offline -p svgbob --test zz_seed_demo 2>&1 | grep -E "^test result|error(\[|:)" | head -4
git apply -R "$D/patch.diff"
echo "== demo without the change (expect pass)"
cargo test --offline -p svgbob --test zz_seed_demo 2>&1 | grep -E "^test result|error(\[|:)" | head -4
cd /; git -C /repo worktree remove --force $W

"""Parse svgbob's output with a conforming XML parser (expat) into a canonical form."""
import xml.parsers.expat
from fractions import Fraction


class Elem:
    __slots__ = ("tag", "attrs", "text", "children", "parent")

    def __init__(self, tag, attrs, parent):
        self.tag = tag
        self.attrs = attrs
        self.text = ""
        self.children = []
        self.parent = parent

    def key(self):
        return (self.tag, tuple(sorted(self.attrs.items())), self.text)

    def __repr__(self):
        return "<%s %s %r>" % (self.tag, self.attrs, self.text)


class ParseError(Exception):
    pass


def parse(svg):
    """returns the root Elem; raises ParseError if expat rejects the document"""
    p = xml.parsers.expat.ParserCreate(namespace_separator=None)
    p.buffer_text = True
    root = [None]
    stack = []

    def start(name, attrs):
        e = Elem(name, dict(attrs), stack[-1] if stack else None)
        if stack:
            stack[-1].children.append(e)
        else:
            if root[0] is not None:
                raise ParseError("two roots")
            root[0] = e
        stack.append(e)

    def end(name):
        stack.pop()

    def chars(data):
        if stack:
            stack[-1].text += data

    p.StartElementHandler = start
    p.EndElementHandler = end
    p.CharacterDataHandler = chars
    try:
        p.Parse(svg.encode("utf-8") if isinstance(svg, str) else svg, True)
    except xml.parsers.expat.ExpatError as e:
        raise ParseError(str(e))
    if root[0] is None:
        raise ParseError("no root")
    return root[0]


def num(s):
    """exact value of a printed decimal"""
    return Fraction(s)


def split_root(root):
    """returns (style, defs, backdrop, geometry children) of the svg root"""
    style = defs = backdrop = None
    geo = []
    for c in root.children:
        if c.tag == "style" and style is None and not geo:
            style = c
        elif c.tag == "defs" and defs is None and not geo:
            defs = c
        elif c.tag == "rect" and c.attrs.get("class") == "backdrop" and backdrop is None and not geo:
            backdrop = c
        else:
            geo.append(c)
    return style, defs, backdrop, geo


def flat_geometry(root):
    """every geometry element, groups flattened: list of (in_group:bool, Elem)"""
    _, _, _, geo = split_root(root)
    out = []
    for e in geo:
        if e.tag == "g":
            for c in e.children:
                out.append((True, c))
        else:
            out.append((False, e))
    return out


def geometry_keys(root, with_group=False):
    """sorted list of canonical keys of all geometry elements (multiset)"""
    ks = []
    for ing, e in flat_geometry(root):
        k = e.key()
        if with_group:
            k = (ing,) + k
        ks.append(k)
    ks.sort()
    return ks


def strip_ws_text(e):
    """text of container elements (svg, g, defs, marker) is indentation only"""
    if e.tag in ("svg", "g", "defs", "marker"):
        e.text = e.text.strip()
    for c in e.children:
        strip_ws_text(c)
    return e

#!/usr/bin/env python3
"""run every claimed check against every seeded change; writes seeded/MATRIX.json
(rows: seeds, columns: properties; value: 'V' violation with failing input, 'N' violation
no-failing-input-found, '-' not detected)"""
import json
import os
import subprocess
import sys

VERIF = os.path.dirname(os.path.dirname(os.path.abspath(__file__)))


def main():
    props = [c["property_id"] for c in json.load(open(os.path.join(VERIF, "MANIFEST.json")))["checks"]]
    only = sys.argv[1:]
    seeds = sorted(d for d in os.listdir(os.path.join(VERIF, "seeded")) if os.path.isdir(os.path.join(VERIF, "seeded", d)))
    if only:
        seeds = [s for s in seeds if s in only]
    mpath = os.path.join(VERIF, "seeded", "MATRIX.json")
    matrix = json.load(open(mpath)) if os.path.exists(mpath) else {}
    for s in seeds:
        d = os.path.join(VERIF, "seeded", s)
        st = subprocess.run(["git", "-C", "/repo", "status", "--porcelain"], capture_output=True, text=True).stdout
        if st.strip():
            print("refusing: /repo not clean")
            return 2
        subprocess.run(["git", "-C", "/repo", "apply", os.path.join(d, "patch.diff")], check=True)
        row = {}
        try:
            for p in props:
                r = subprocess.run([os.path.join(VERIF, "check"), p], capture_output=True, text=True, cwd=VERIF)
                v = [l for l in r.stdout.splitlines() if l.startswith("VIOLATION")]
                row[p] = "-" if not v else ("N" if "no-failing-input-found" in v[0] else "V")
                print(s, p, row[p], flush=True)
        finally:
            subprocess.run(["git", "-C", "/repo", "checkout", "--", "."], check=True)
        matrix[s] = row
        json.dump(matrix, open(mpath, "w"), indent=1, sort_keys=True)
    return 0


if __name__ == "__main__":
    sys.exit(main())

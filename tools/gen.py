"""Input generators. Every random choice comes from the Rng passed in."""
import os

from common import REPO

DRAW_ASCII = "-|+/\\.,'`_~:!=*oO<>^vV()[]#xX"
BOX = "-|+"
ROUND = ".,'`"
LABEL = "abcdefghijklmnopqrstuwyzABCDEFGHIJKLMNPQRSTUWYZ0123456789?@$%;"
LATIN1 = "éüñßØå"
CYR = "жшдяю"
CJK = "一二三日本語中"
COMBINING = "́̈"
GLYPHS = "─│┌┐└┘├┤┬┴┼╭╮╰╯═║╔╗╚╝▲▼◀▶●○◆"
CONTROL = "\x01\x02\x07\x08\x0b\x0c\x1b\x7f\x85"
ODD = "￾￿\U0001F600\U00010000​  　"
MARKUP = "<>&'\""


def bundled():
    d = os.path.join(REPO, "crates", "svgbob", "test_data")
    out = []
    if os.path.isdir(d):
        for fn in sorted(os.listdir(d)):
            if fn.endswith(".bob"):
                with open(os.path.join(d, fn), encoding="utf-8") as f:
                    out.append((fn, f.read()))
    return out


def bundled_blocks(max_lines=12):
    """paragraph-sized pieces of the bundled diagrams (separated by blank lines)"""
    out = []
    for fn, text in bundled():
        body = text.split("# Legend:")[0]
        block = []
        for line in body.split("\n"):
            if line.strip() == "":
                if block:
                    out.append("\n".join(block))
                    block = []
            else:
                block.append(line.rstrip())
                if len(block) >= max_lines:
                    out.append("\n".join(block))
                    block = []
        if block:
            out.append("\n".join(block))
    return out


def random_grid(rng, w, h, alphabet, density_pct):
    rows = []
    for _ in range(h):
        row = []
        for _ in range(w):
            if rng.below(100) < density_pct:
                row.append(rng.choice(alphabet))
            else:
                row.append(" ")
        rows.append("".join(row).rstrip())
    return "\n".join(rows)


def box(w, h, corners="++++", hor="-", ver="|", inner=None):
    """a box with w interior columns and h interior rows"""
    tl, tr, bl, br = corners
    rows = [tl + hor * w + tr]
    for i in range(h):
        body = " " * w
        if inner and i < len(inner):
            body = (inner[i] + " " * w)[:w]
        rows.append(ver + body + ver)
    rows.append(bl + hor * w + br)
    return "\n".join(rows)


def place(art, k, n):
    """move a drawing k columns right and n rows down"""
    return "\n" * n + "\n".join((" " * k + l) if l else l for l in art.split("\n"))


def dispw(s):
    """display columns of a string: East Asian wide / fullwidth characters take two"""
    import unicodedata
    return sum(2 if unicodedata.east_asian_width(c) in ("W", "F") else 1 for c in s)


def side_by_side(a, b, gap):
    la = a.split("\n")
    lb = b.split("\n")
    wa = max((dispw(l) for l in la), default=0)
    n = max(len(la), len(lb))
    la += [""] * (n - len(la))
    lb += [""] * (n - len(lb))
    return "\n".join((x + " " * (wa + gap - dispw(x)) + y).rstrip() for x, y in zip(la, lb))


def mixed_alphabet(rng):
    """a drawing alphabet with a random admixture of other character classes"""
    a = DRAW_ASCII
    if rng.chance(1, 2):
        a += LABEL[: rng.range(1, len(LABEL))]
    if rng.chance(1, 4):
        a += GLYPHS
    if rng.chance(1, 6):
        a += LATIN1 + CYR
    if rng.chance(1, 8):
        a += CJK
    return a


def random_diagram(rng, maxw=24, maxh=10):
    """dense or sparse random grid over a mixed alphabet, or a mutated bundled block"""
    blocks = bundled_blocks()
    r = rng.below(10)
    if r < 3 and blocks:
        s = rng.choice(blocks)
        # mutate a few characters
        cs = list(s)
        for _ in range(rng.below(4)):
            if cs:
                i = rng.below(len(cs))
                if cs[i] != "\n":
                    cs[i] = rng.choice(DRAW_ASCII + " ")
        return "".join(cs)
    w = rng.range(1, maxw)
    h = rng.range(1, maxh)
    dens = rng.choice([10, 25, 45, 70, 95])
    return random_grid(rng, w, h, mixed_alphabet(rng), dens)


def circle_catalogue():
    """the 22 circle drawings (dedented rows) and their edge case, read from the regenerated table"""
    import re
    from common import LEAN
    src = open(os.path.join(LEAN, "Svgbob", "Gen", "CircleArt.lean"), encoding="utf-8").read()
    out = []
    for m in re.finditer(r'art := "((?:[^"\\]|\\.)*)",\s*edge := \.(\w+)', src):
        art = m.group(1).encode("utf-8").decode("unicode_escape").encode("latin-1").decode("utf-8")
        rows = [r.rstrip() for r in art.split("\n")]
        rows = [r for r in rows if r.strip()]
        ind = min(len(r) - len(r.lstrip()) for r in rows)
        rows = [r[ind:] for r in rows]
        out.append(("\n".join(rows), m.group(2)))
    return out


def attached_shape(rng):
    """a shape with something attached to it: a catalogue circle with an arrow / line / label touching it, a box with a
    connector, a rounded box with a tail. These are the drawings whose recognition leaves a remainder."""
    r = rng.below(4)
    if r <= 1:
        cat = circle_catalogue()
        art, _ = rng.choice(cat[: 8] if rng.chance(2, 3) else cat)
        rows = art.split("\n")
        w = max(len(x) for x in rows)
        mid = len(rows) // 2
        tail = rng.choice(["---->", "----", "--*", "-- ab", "==>", "--+\n", "<---"])
        if rng.chance(1, 2):
            rows[mid] = rows[mid].ljust(w) + tail.replace("\n", "")
        else:
            rows = [(" " * len(tail)) + x for x in rows]
            rows[mid] = tail.replace("\n", "")[::-1].replace(">", "<") + rows[mid][len(tail):]
        if rng.chance(1, 3):
            rows.append(" " * (w // 2) + "|")
            rows.append(" " * (w // 2) + "v")
        return "\n".join(rows)
    if r == 2:
        b = box(rng.range(1, 6), rng.range(1, 3), inner=[rng.choice(["a", "ab", "{t}", "\"\"", "x y"])]).split("\n")
        b[1] = b[1] + rng.choice(["---->", "--o", "--*--", "<--"])
        return "\n".join(b)
    b = box(rng.range(1, 6), rng.range(1, 3), corners=".." + "''").split("\n")
    b[-1] = b[-1] + rng.choice(["--", "---->", "-."])
    return "\n".join(b)


def nested_boxes(levels, corners="++++"):
    """boxes inside boxes: levels = list of rows of text to put under the inner box at each level, outermost first;
    the innermost level holds only its rows. Returns the drawing."""
    art = None
    for rows in reversed(levels):
        if art is None:
            w = max([len(r) for r in rows] + [1]) + 2
            art = box(w, max(1, len(rows)), corners=corners, inner=[" " + r for r in rows])
        else:
            inner = art.split("\n")
            w = max([len(x) for x in inner] + [len(r) + 1 for r in rows]) + 4
            body = [""] + ["  " + x for x in inner] + [" " + r for r in rows] + [""]
            art = box(w, len(body), corners=corners, inner=body)
    return art


# ---------------------------------------------------------------------------------------------
# the zoo: one generator that composes every feature class seen to matter, shared by all checks
# ---------------------------------------------------------------------------------------------

# Unicode blanks and separators: white space for `char::is_whitespace`, not line breaks for `str::lines`
UNI_SPACES = "\u2028\u2029\u0085\u000b\u000c\u00a0\u1680\u2000\u2003\u200a\u202f\u205f\u3000"
# labels in scripts with their own rules: right-to-left, combining marks, conjuncts, jamo, emoji sequences, ligatures,
# characters whose case mapping changes the length
SCRIPT_LABELS = ["שלום", "שלום עולם", "مرحبا", "سلام", "ܫܠܡܐ", "abc שלום", "ไทย", "สวัสดี", "हिन्दी", "한글", "각",
                 "👨\u200d👩\u200d👧", "🇩🇪", "ǅ", "ß", "İ", "ﬁ", "Ω", "①", "ἀ", "ᄀ"]
SPECIAL_LABEL = SCRIPT_LABELS + ["a\u2028b", "x\u2029y z", "a\u0085b", "a\u000bb", "a\u000cb", "a\u00a0b", "a\u3000b", "a\u2003b", "a\u205fb",
                 "é", "ü", "ж", "一", "本語", "á", "a​b", "x️", "\t", "a\tb", "\x01", "￾", "́", "😀", "a&b", "<b>", "'q'"]


def styled_box(rng, inner=None, w=None, h=None):
    """a box whose four edges are styled independently (solid / dashed), corners sharp, rounded or box-drawing"""
    fam = rng.below(6)
    if fam <= 2:
        corners = "++++"
    elif fam <= 4:
        corners = rng.choice([".." + "''", ",." + "`'", ".." + "`'"])
    else:
        corners = "┌┐└┘"
    glyph = corners[0] == "┌"
    inner = inner or []
    w = w if w is not None else max([len(x) for x in inner] + [rng.range(0, 8)]) + rng.below(3)
    h = h if h is not None else max(len(inner), rng.range(0, 4))
    top = "─" if glyph else rng.choice("---~")
    bot = "─" if glyph else rng.choice("---~")
    tl, tr, bl, br = corners
    rows = [tl + top * w + tr]
    for i in range(h):
        l = "│" if glyph else rng.choice("|||:!")
        r = "│" if glyph else rng.choice("|||:!")
        body = (inner[i] if i < len(inner) else "")
        rows.append(l + (body + " " * w)[:w] + r)
    rows.append(bl + bot * w + br)
    return "\n".join(rows)


def decorated_run(rng):
    """a straight run in one of the four axes, pieces mixing solid and dashed, with an arrow head, a bullet or
    nothing at either end, possibly a `*` in the middle"""
    axis = rng.below(4)
    n = rng.range(1, 10)
    heads = {0: ("<", ">"), 1: ("^", "v"), 2: ("^", "v"), 3: ("^", "v")}[axis]
    pieces = {0: "-~", 1: "|:!", 2: "\\", 3: "/"}[axis]
    body = []
    while len(body) < n:
        body += [rng.choice(pieces[:1] * 3 + pieces)] * rng.range(1, 4)
    body = body[:n]
    if axis == 0 and n >= 3 and rng.chance(1, 4):
        body[n // 2] = rng.choice("*oO")

    def end(which):
        r = rng.below(5)
        if r == 0:
            return heads[which]
        if r == 1:
            return rng.choice("*oO")
        if r == 2:
            return "+"
        return None
    a, b = end(0), end(1)
    seq = ([a] if a else []) + body + ([b] if b else [])
    m = len(seq)
    if axis == 0:
        return "".join(seq)
    if axis == 1:
        return "\n".join(seq)
    if axis == 2:
        return "\n".join(" " * i + c for i, c in enumerate(seq))
    return "\n".join(" " * (m - 1 - i) + c for i, c in enumerate(seq))


def label(rng, special=True):
    words = []
    for _ in range(rng.range(1, 3)):
        if special and rng.chance(1, 4):
            words.append(rng.choice(SPECIAL_LABEL))
        else:
            words.append("".join(rng.choice(LABEL[:40]) for _ in range(rng.range(1, 6))))
    return " ".join(words)


def overlay(base, top, x, y):
    """the non-blank characters of `top` written over `base` at column x, row y"""
    rows = base.split("\n")
    trows = top.split("\n")
    while len(rows) < y + len(trows):
        rows.append("")
    for j, tr in enumerate(trows):
        row = list(rows[y + j].ljust(x + len(tr)))
        for i, ch in enumerate(tr):
            if ch != " ":
                row[x + i] = ch
        rows[y + j] = "".join(row).rstrip()
    return "\n".join(rows)


def circle_pair(rng):
    """two catalogue circles in one group of cells: a small one written over / next to a corner or an edge of a bigger
    one (several catalogue drawings then match the same span)"""
    cat = circle_catalogue()
    big = rng.choice(cat[2:12])[0]
    small = rng.choice(cat[:4])[0]
    rows = big.split("\n")
    w = max(len(r) for r in rows)
    spot = rng.below(5)
    if spot == 0:
        return overlay(place(big, 0, 0), small, 0, 0)
    if spot == 1:
        return overlay(big, small, w, 0)
    if spot == 2:
        return overlay(big, small, 0, len(rows))
    if spot == 3:
        return overlay(big, small, rng.below(w + 2), rng.below(len(rows) + 1))
    return side_by_side(small, big, 0)


def tagged_slope(rng, tags=True):
    """a sloped line (optionally with a bullet at its lower end) whose bounding box holds a `{tag}` or a label"""
    n = rng.range(3, 6)
    tag = rng.choice(["{a}", "{b1}", "{a,w}", "ab"]) if tags else "ab"
    end = rng.choice(["", "*", "o", "O"])
    if rng.chance(1, 2):       # falling to the right: the tag sits right of an upper row, inside the extent of the line
        rows = [" " * i + "\\" for i in range(n)]
        k = rng.range(0, n - 2)
        rows[k] = rows[k] + " " + tag
        if end:
            rows.append(" " * n + end)
    else:                       # falling to the left: the tag sits left of a lower row
        rows = [" " * (n - 1 - i) + "/" for i in range(n)]
        k = rng.range(0, n - 1)
        lead = n - 1 - k
        if lead >= len(tag) + 1:
            rows[k] = tag.ljust(lead) + "/"
        else:
            rows[0] = rows[0] + " " + tag
        if end:
            rows = [" " + r for r in rows] + [end]
    return "\n".join(rows)


def zoo_piece(rng, quotes=True, tags=True, special=True):
    k = rng.below(17)
    if k == 15:
        return circle_pair(rng)
    if k == 16:
        return tagged_slope(rng, tags)
    if k == 13:
        return comb(rng)
    if k == 14:
        return tree(rng)[0]
    if k == 0:
        inner = []
        for _ in range(rng.below(3)):
            r = rng.below(5)
            if r == 0 and tags:
                inner.append(" {" + ",".join(rng.choice(["a", "b1", "red", "w"]) for _ in range(rng.range(1, 3))) + "}")
            elif r == 1 and quotes:
                inner.append(' "' + rng.choice(["q", "a-b|c", 'x\\"y', "", "一", "a\u00a0b", "x\u2003y"]) + '"')
            else:
                inner.append(" " + label(rng, special))
        return styled_box(rng, inner)
    if k == 1:
        depth = rng.range(2, 4)
        lv = [[rng.choice(["", label(rng, special), "{a}" if tags else "t", "*->", '"q"' if quotes else "q"])] for _ in range(depth)]
        return nested_boxes(lv, corners=rng.choice(["++++", "..''"]))
    if k == 2 or k == 3:
        return decorated_run(rng)
    if k == 4:
        cat = circle_catalogue()
        art = rng.choice(cat[:10] if rng.chance(2, 3) else cat)[0]
        return art
    if k == 5:
        return attached_shape(rng)
    if k == 6:
        blocks = bundled_blocks()
        return rng.choice(blocks) if blocks else "+-+"
    if k == 7:
        return random_grid(rng, rng.range(1, 10), rng.range(1, 5), mixed_alphabet(rng), rng.choice([30, 60, 95]))
    if k == 8:
        return "\n".join(label(rng, special) for _ in range(rng.range(1, 3)))
    if k == 9:
        # a label between two long diagonals / next to a box and a diagonal (overlapping bounding boxes)
        h = rng.range(4, 6)
        lab = rng.choice(["a", "ab"])
        rows = [" " * (h - 1 - i) + "/" + " " * (len(lab) + 1) + "/" for i in range(h)]
        i = rng.range(1, h - 2)
        rows[i] = " " * (h - 1 - i) + "/" + lab + " /"
        return "\n".join(rows)
    if k == 10:
        # an elbow path with corners and a T junction
        w, h = rng.range(2, 8), rng.range(1, 4)
        rows = ["+" + "-" * w + "+" + "-" * rng.below(4)]
        rows += ["|" + " " * w + "|"] * h
        rows += ["+" + "-" * (w // 2) + "+" + ("-" * (w - w // 2 - 1) + "'" if w - w // 2 - 1 >= 0 else "")]
        return "\n".join(rows)
    if k == 11:
        n = rng.range(2, 6)
        return "\n".join(rng.choice(["-", "=", "~", "_"]) * rng.range(2, 9) for _ in range(n))
    if quotes:
        return " ".join(rng.choice(['"a\u00a0b"', '"x\ty"', '"一\u3000二"', '"a\u2003-"', '"a-b"', '"|"', '"x\\"y"', '""', '"一二"', '"<&>"', '"&#60;"', '"&lt;&#x3c;"', '"a”|b"', '"“--"', '“x”', '"«-»"', "--", "+", "ab", '3"', '\\"x"', '"']) for _ in range(rng.range(1, 4)))
    return label(rng, special)


LEGENDS = ["a = {fill:red}", "b1 = {stroke:blue;}", "w = {}", "red = { fill : #f00 }", "a = {fill:blue}\nb1 = {x:y}",
           "w = {stroke-dasharray: 1 2;\n  fill: none}", "a={fill:red} ", "big = {a}",
           "w = {fill：red；}", "a = {＜b＞＆c}", "b1 = {x:﹤y﹥﹠}"]


def zoo(rng, legend=True, quotes=True, tags=True, special=True, crlf=False):
    """a drawing composed of 1..4 pieces placed side by side, stacked, aligned or touching, optionally with a legend"""
    art = zoo_piece(rng, quotes, tags, special)
    for _ in range(rng.below(4)):
        other = zoo_piece(rng, quotes, tags, special)
        mode = rng.below(5)
        gap = rng.choice([0, 1, 1, 2, 3])
        if mode <= 1:
            art = side_by_side(art, other, gap)
        elif mode == 2:
            art = art + "\n" * (gap + 1) + other
        elif mode == 3:
            la = art.split("\n")
            x = dispw(la[-1])
            art = art + "\n" * (gap + 1) + place(other, x, 0)
        else:
            art = art + "\n" * (gap + 1) + place(other, rng.below(6), 0)
    art = place(art, rng.choice([0, 0, 1, 3, 9]), rng.choice([0, 0, 1, 2]))
    if not legend:
        art = art.split("# Legend:")[0]
    elif rng.chance(1, 4):
        body = art.split("# Legend:")[0].rstrip("\n")
        if rng.chance(1, 3):
            # something before the legend that a legend finder can trip over: a mere mention of the marker (in a note, in
            # a quoted label), an unpaired quote (an inch mark, a ditto mark)
            body += "\n" + rng.choice(["see # Legend: below", '"# Legend:" x', '"see # Legend: a"', '5" pipe', 'a "', "# Legend: x",
                                       '3.5"', "# Legend:x", "#Legend:"])
        art = body + "\n\n# Legend:" + rng.choice(["", " "]) + "\n" + \
            "\n".join(rng.choice(LEGENDS) for _ in range(rng.range(1, 3))) + rng.choice(["", "\n", "\n\n"])
    if not tags:
        art = art.replace("{", "(").replace("}", ")")
    if not quotes:
        art = art.replace('"', "'")
    if special and rng.chance(1, 25):
        art = rng.choice(["\ufeff", "\u200b", "\ufeff\n"]) + art
    if crlf:
        art = art.replace("\r", "").replace("\n", "\r\n")
    return art


def comb(rng, below=False):
    """a ruler / comb / bar chart: a base line of `+` and `-` with vertical strokes of different heights standing on it
    (many strokes that start above the line that joins them: the grouping needs one pass per stroke)"""
    n = rng.range(3, 10)
    kind = rng.below(3)
    if kind == 0:
        hs = [rng.range(1, 3) for _ in range(n)]
    elif kind == 1:
        hs = [1 + i * rng.range(1, 2) // 1 for i in range(n)]            # growing sticks
    else:
        hs = [rng.choice([2, 2, 2, 1]) for _ in range(n)]
        hs[rng.below(min(3, n))] = 1                                       # one of the first ticks is shorter
    H = max(hs)
    step = rng.choice([2, 2, 3])
    rows = []
    for r in range(H):
        rows.append("".join(("|" if hs[i] >= H - r else " ") + " " * (step - 1) for i in range(n)).rstrip())
    rows.append(("+" + "-" * (step - 1)) * (n - 1) + "+")
    if below or rng.chance(1, 5):
        rows.append("".join(("|" if rng.chance(1, 2) else " ") + " " * (step - 1) for i in range(n)).rstrip())
    return "\n".join(rows)


def tree(rng):
    """a trunk with branches leaving it at several rows, some through a rounded elbow, ending in arrow heads, bullets
    or labels; returns (drawing, number of arrow heads)"""
    H = rng.range(4, 9)
    rows = ["|"] * H
    arrows = 0
    used = set()
    for _ in range(rng.range(1, 3)):
        r = rng.range(0, H - 2)
        if r in used or r + 1 in used:
            continue
        used.add(r)
        k = rng.below(4)
        ln = "-" * rng.range(2, 5)
        if k == 0:
            rows[r] = "+" + ln + " a"
        elif k == 1:
            rows[r] = "+" + ln + ">"
            arrows += 1
        elif k == 2 and r + 1 < H - 1:
            rows[r] = "| ." + ln + rng.choice([" a", ">"])
            arrows += rows[r].endswith(">")
            rows[r + 1] = "|-'"
            used.add(r + 1)
        else:
            rows[r] = "|" + ln + rng.choice(["*", "o", ""])
    end = rng.below(4)
    if end == 0:
        rows.append("v")
        arrows += 1
    elif end == 1:
        rows.append("'" + "-" * rng.range(2, 5) + "> b")
        arrows += 1
    elif end == 2:
        rows.append("V")
        arrows += 1
    else:
        rows.append("+--")
    return "\n".join(rows), arrows


def bus(k, step=4):
    """a bus with k taps: a label row, k risers that do not touch each other, one more riser at the far left that starts
    one row lower, and a rail joining them (the grouping needs about one pass per tap)"""
    rows = ["  " + "".join(("t%d" % (i % 10)).ljust(step) for i in range(k))]
    rows.append("  " + "".join("|".ljust(step) for i in range(k)))
    rows.append("| " + "".join("|".ljust(step) for i in range(k)))
    rows.append("+-" + "".join(("+" + "-" * (step - 1)) for i in range(k)))
    return "\n".join(r.rstrip() for r in rows)


# ---------------------------------------------------------------------------------------------------------------------
# extremes: drawings at the ends of the size axes. A change that holds up to a threshold (a look-back window, a pass cap, a
# fixed-size buffer, a narrower integer type, a float tolerance, a key truncated to a byte) is invisible on ordinary
# drawings; each family here pushes one axis past the usual powers of two.

TH = [31, 32, 33, 63, 64, 65, 66, 70, 127, 128, 129, 130, 255, 256, 257, 300, 513]
FAR = [32766, 32767, 32768, 32769, 65535, 65536, 150000, 300001]
# label characters (no drawing meaning) whose code point truncated to 8 or 16 bits is a blank or a drawing character
ALIAS = "∠ĭżīįŜşĪůĢŻħĩĺľ\U0001002d\U0001007c\U00010020\U0001002b"
# the ones without any drawing meaning (`∠` is a glyph of the Unicode table): usable as label characters
ALIAS_LABELS = ALIAS[1:]
# glyphs of the Unicode table (characters WITH a drawing meaning) whose code point truncated to a byte is an ASCII drawing
# character: a memo keyed by truncated neighbours confuses them with `> ` , < V X [ \ ] ^ _ ` o`
ALIAS_GLYPHS = "‾≠┬┼╖╘╛╜╝╞╟╠╯"


def many_groups(rng, n=None):
    """`n` separate small groups on one row (or two), optionally right of a small connected piece"""
    n = n or rng.choice(TH)
    unit = rng.choice(["a", "+", "o", "()", "[]", "*", "-", "|", "_", "ab", "一", "<>"])
    row = " ".join(unit for _ in range(n))
    rows = [row]
    if rng.chance(1, 2):
        rows.append(" ".join(rng.choice(["b", "+", "x"]) for _ in range(n)))
        if rng.chance(1, 2):
            rows.insert(1, "")
    left = rng.choice([None, "|\n|", "+--+\n|  |\n+--+", "*-->", "/\n\\"])
    art = "\n".join(rows)
    if left:
        art = side_by_side(left, art, rng.choice([1, 2]))
    return art


def rail_many(rng, n=None, kind=None):
    """a connected piece of `- | +` whose cells of one row are separated, in reading order, from the cells of the next row by
    `n` separate label groups: the rail must still be one connected piece (a `+` keeps the stub towards the `|` above/below)"""
    n = n or rng.choice([257, 300, 513, 70, 130])
    kind = rng.below(4) if kind is None else kind
    unit = rng.choice(["a", "ab", "x1", "Q"])
    labels = " ".join(unit for _ in range(n))
    if kind == 0:
        return "|    " + labels + "\n+--"
    if kind == 1:
        return "+    " + labels + "\n|"
    if kind == 2:
        return "+--+  " + labels + "\n|  |\n+--+"
    return "--+   " + labels + "\n  |  " + labels + "\n  +--"


ARC_CHARS = "╭╮╰╯◜◝◟◞⤹.,'`()"


def arc_rails():
    """every character that draws an arc, glued by a connector to a rail with 0..6 stubs above or below it (and the mirror
    image): contact groups of exactly four and exactly eight fragments holding an arc are what the rectangle recognisers
    look at — among the arcs of the tables are degenerate ones (a chord longer than the diameter has no centre)"""
    out = []
    for a in ARC_CHARS:
        for con in ["", "-", ">-", "<-", "--", "=", "~-", "_"]:
            for k in range(0, 7):
                rail = "+-" * k
                stubs = "| " * k
                pad = " " * (1 + len(con))
                out.append(a + con + rail + "\n" + pad + stubs)
                out.append(pad + stubs + "\n" + a + con + rail)
                out.append(rail[::-1] + con[::-1].replace(">", "\0").replace("<", ">").replace("\0", "<") + a + "\n" + stubs[::-1])
    return [t.rstrip() for t in out]


def wide_frame(rng, L=None, ticks=None, left_arm=None):
    """one connected group of more than 512 cells: a long rule with a rounded corner at its left end, a trunk going down
    from it and a second rounded corner at the bottom whose arm comes from the left or goes to the right; ticks (`/`)
    hang from the far end of the rule on the first two rows, so that the group is gathered from several pieces"""
    L = L or rng.choice([515, 530, 700])
    k = rng.range(6, 10)
    h = rng.range(3, 6)
    ticks = rng.chance(2, 3) if ticks is None else ticks
    left_arm = rng.chance(1, 2) if left_arm is None else left_arm
    rows = [" " * k + rng.choice(".,") + "-" * L + (" /" if ticks else ""),
            " " * k + "|" + " " * L + ("/" if ticks else "")]
    rows += [" " * k + "|" for _ in range(h)]
    if left_arm:
        rows.append(" " * rng.below(3) + "-" * (k - 2) + "'")
        rows[-1] = rows[-1].rjust(k + 1) if len(rows[-1]) < k + 1 else rows[-1][len(rows[-1]) - (k + 1):]
    else:
        rows.append(" " * k + rng.choice("'`") + "-" * rng.range(3, 9) + ">")
    return "\n".join(r.rstrip() for r in rows)


def staircase(rng, n=None, kind=None):
    """an ascending or descending bar chart of `n` bars on a common base, or a comb with `n` teeth"""
    n = n or rng.choice([17, 33, 64, 65, 66, 70, 80])
    kind = rng.below(3) if kind is None else kind
    rows = []
    if kind == 2:      # comb: equal teeth
        h = rng.range(1, 3)
        for _ in range(h):
            rows.append("".join("| " for _ in range(n)))
        rows.append("+" + "-+" * (n - 1))
        return "\n".join(rows)
    for r in range(n):
        row = ""
        for c in range(n):
            tall = (c + 1) if kind == 0 else (n - c)
            row += "| " if (n - r) <= tall else "  "
        rows.append(row.rstrip())
    rows.append(rng.choice(["|_" * n, ("|_" * n)[:-1], "+-" * n]))
    return "\n".join(rows)


def long_things(rng, n=None, k=None):
    n = n or rng.choice(TH)
    k = rng.below(8) if k is None else k
    if k == 0:      # a long quoted label followed by more drawing on the same row
        body = rng.choice(["x", "ab ", "一", "a-|+", "é"])
        q = (body * n)[:n]
        after = rng.choice([" |", " +--+", "-->", " a", "|"])
        rows = ['"' + q + '"' + after]
        if after == " +--+":
            w = len('"' + q + '"') + 1
            if "一" in q:
                w = dispw('"' + q + '"') + 1
            rows = [" " * w + "+--+", '"' + q + '" |  |', " " * w + "+--+"]
        return "\n".join(rows)
    if k == 1:      # a long label next to a stroke
        return rng.choice(["|", "+-", ""]) + ("".join(rng.choice("abc xyz") for _ in range(n))) + rng.choice(["|", "-+", ""])
    if k == 2:      # a long run in one of the four directions
        d = rng.below(4)
        ch = rng.choice("-=~_") if d == 0 else rng.choice("|:!") if d == 1 else "/" if d == 2 else "\\"
        if d == 0:
            return rng.choice(["", "*", "<", "+"]) + ch * n + rng.choice(["", "*", ">", "+"])
        if d == 1:
            return "\n".join([rng.choice(["^", "|", "+"])] + [ch] * n + [rng.choice(["v", "|", "+"])])
        if d == 2:
            return "\n".join(" " * (n - 1 - i) + ch for i in range(n))
        return "\n".join(" " * i + ch for i in range(n))
    if k == 3:      # a wide or tall box with content
        if rng.chance(1, 2):
            return box(n, rng.range(1, 3), corners=rng.choice(["++++", "..''"]), inner=[" " + label(rng)])
        return box(rng.range(2, 6), n, corners=rng.choice(["++++", "..''"]), inner=[" a"])
    if k == 4:      # a tag list / many tags
        tags = ",".join("t%d" % i for i in range(min(n, 140)))
        return box(len(tags) + 4, 1, inner=[" {" + tags + "}"])
    if k == 5:      # a legend with many entries
        m = min(n, 140)
        return "+----+\n|{c%d}|\n+----+\n# Legend:\n" % (m - 1) + "\n".join("c%d = {fill:#%03x}" % (i, i) for i in range(m)) + "\n"
    if k == 6:      # many rows, one small group each
        return "\n".join(rng.choice(["a", "+", "-", "o", "ab c", ""]) for _ in range(n))
    # many short quoted labels on one row
    return " ".join('"q%d"' % i for i in range(min(n, 90))) + " |"


def far_away(rng, piece=None):
    """a small drawing placed tens or hundreds of thousands of cells away from the origin"""
    piece = piece or rng.choice(["+--+\n|  |\n+--+", ".--.\n|  |\n'--'", "*-->", "(_)", "-+--+-\n |  |\n-+--+-", "a\n|\n+-b",
                                 "|  |\n+--+\n|  |\n+--+\n|  |", "/\n\\", '"q" |', "{a}\n# Legend:\na = {fill:red}"])
    k = rng.choice(FAR) + rng.choice([-3, -1, 0, 0, 1, 2])
    if rng.chance(1, 2):
        return place(piece.split("# Legend:")[0], k, rng.below(3)) + ("# Legend:" + piece.split("# Legend:")[1] if "# Legend:" in piece else "")
    return "\n" * k + piece


def deep_nesting(rng):
    depth = rng.range(5, 10)
    lv = [[rng.choice(["", "a", "{a}", '"q"'])] for _ in range(depth)]
    return nested_boxes(lv, corners=rng.choice(["++++", "..''"])) + rng.choice(["", "\n# Legend:\na = {fill:red}\n"])


def alias_labels(rng):
    """label characters whose truncated code point is a blank or a drawing character, next to strokes"""
    a = rng.choice(ALIAS)
    k = rng.below(6)
    if k == 0:
        return a + "|\n |"
    if k == 1:
        return " " + a + "\n+"
    if k == 2:
        return "a\n|" + a + "\n|\nb"
    if k == 3:
        return "x " + a + "+" + a + " y\n" + a * 3
    if k == 4:
        return random_grid(rng, rng.range(2, 6), rng.range(2, 4), "-|+ " + a + a, 80)
    return box(4, 2, inner=[" " + a + a]) + "\n" + a + "-" + a + "|" + a


def extremes(rng):
    k = rng.below(12)
    if k == 0:
        return many_groups(rng)
    if k == 1:
        return rail_many(rng) if rng.chance(1, 2) else many_groups(rng)
    if k == 2:
        return staircase(rng)
    if k <= 5:
        return long_things(rng)
    if k <= 7:
        return far_away(rng)
    if k == 8:
        return deep_nesting(rng)
    if k <= 10:
        return alias_labels(rng)
    # an ordinary composed drawing pushed far away
    return far_away(rng, zoo(rng, legend=False, special=False))


def extremes_list(rng, n):
    """`n` extreme drawings; the first ones walk every family once at a size past the usual thresholds, so that a run of
    any length covers them all"""
    base = [many_groups(rng, 257), many_groups(rng, 513), many_groups(rng, 300),
            staircase(rng, 70, 0), staircase(rng, 66, 1), staircase(rng, 80, 2), staircase(rng, 65, 0),
            long_things(rng, 129, 0), long_things(rng, 300, 0), long_things(rng, 257, 1), long_things(rng, 513, 2),
            long_things(rng, 257, 3), long_things(rng, 130, 4), long_things(rng, 130, 5), long_things(rng, 300, 6),
            long_things(rng, 80, 7), deep_nesting(rng)]
    base += [wide_frame(rng, 520, True, True), wide_frame(rng, 700, True, False), wide_frame(rng)]
    base += [rail_many(rng, 257, 0), rail_many(rng, 300, 1), rail_many(rng, 513, 2), rail_many(rng, 260, 3)]
    base += [far_away(rng) for _ in range(6)] + [alias_labels(rng) for _ in range(4)]
    out = base[:n]
    while len(out) < n:
        out.append(extremes(rng))
    return out


def sibling(text, rng):
    """a drawing that differs from `text` in one channel only and has the same cells: other content (of the same width)
    inside a quoted label, or another declaration in the legend. None when `text` has neither."""
    import re
    rows = text.split("\n")
    for i, row in enumerate(rows):
        m = re.search(r'"([^"\\]+)"', row)
        if m and "# Legend:" not in "\n".join(rows[:i + 1]):
            inner = m.group(1)
            repl = "".join(("y" if ch == "x" else "x") if (ch.isascii() and ch.isalnum()) else ch for ch in inner)
            if repl == inner:
                repl = "".join("x" if (ch.isascii() and not ch.isspace()) else ch for ch in inner)
            if repl != inner:
                rows[i] = row[:m.start(1)] + repl + row[m.end(1):]
                return "\n".join(rows)
    if "# Legend:" in text and "fill:" in text:
        return text.replace("fill:", "stroke:", 1)
    return None


def around(rng, chars, n):
    """small drawings around the given characters (the ones whose table entries changed): the character alone, with one
    neighbour in each of the eight positions, in random 3x3 neighbourhoods, in the first column / row, in a box, on a line"""
    nb = "-|+/\\_.'`*~:!"
    try:
        import common
        nb = nb + "".join(g for g in common.table_glyphs() if g not in nb)      # every glyph of the Unicode table as well
    except Exception:
        pass
    out = []
    for c in chars:
        out += [c, c * 3, c + "\n" + c, "-" + c + "-", "|\n" + c + "\n|", box(3, 1, inner=[" " + c])]
        for d in nb:
            # the character as the first / last letter of a word with the neighbour directly before / after / above / below it
            out += [d + c + "mas", "ab" + c + d, d + "\n" + c + "ab", c + "ab\n" + d]
        for d in nb:
            for (dx, dy) in ((-1, -1), (0, -1), (1, -1), (-1, 0), (1, 0), (-1, 1), (0, 1), (1, 1)):
                rows = [[" "] * 3 for _ in range(3)]
                rows[1][1] = c
                rows[1 + dy][1 + dx] = d
                out.append("\n".join("".join(r).rstrip() for r in rows))
        for _ in range(n):
            w, h = rng.range(2, 4), rng.range(2, 3)
            rows = [[rng.choice(nb) if rng.chance(1, 2) else " " for _ in range(w)] for _ in range(h)]
            cx, cy = (0, rng.below(h)) if rng.chance(1, 3) else (rng.below(w), 0) if rng.chance(1, 2) else (rng.below(w), rng.below(h))
            rows[cy][cx] = c
            t = "\n".join("".join(r).rstrip() for r in rows)
            out.append(t if rng.chance(2, 3) else place(t, rng.below(3), rng.below(2)))
    return out

#!/usr/bin/env python3
"""writes /verif/MANIFEST.json from the table below (kept in one place so it stays valid)"""
import json
import os

VERIF = os.path.dirname(os.path.dirname(os.path.abspath(__file__)))

CLAIMED = {
    "C15": {
        "text": "Lean theorems about the model of escape_line/CellBuffer::from: for every row the quoted segments "
                "returned by line_parse are in range and ordered (no slice panic), the unescaped row equals the "
                "row with exactly the segment columns replaced by spaces (nothing is displaced, quoted content "
                "yields no cell), and each collected text is the verbatim content anchored at the opening quote. "
                "The model is tied to the Rust code by differential runs of escape_line (hook) and of the whole "
                "front end, and the property's own oracle (render(quoted) = render(blanked) + texts) is evaluated "
                "on the implementation.",
        "note": "Trusted: Lean kernel; hand-written model of escape_line/line_parse validated by correspondence on "
                "generated rows; unicode-width/is_whitespace values taken from the real crates per case; theorem "
                "hypothesis ColsOk excludes zero-width/NUL characters inside quotes; a quoted {tag} inside a shape "
                "is consumed as a class (caveat of the property, excluded from the oracle).",
        "technique": "Lean 4 proof over executable model + differential correspondence (hooked escape_line, front end) + oracle search",
        "design_ref": "5 (C15)",
    },
}

CLAIMED["C17"] = {
    "text": "Lean theorems about the model of str::lines/StringBuffer/CellBuffer::from: for every CR-free document "
            "the drawn part yields the same cells and quoted texts after LF->CRLF conversion (lines_crlf) and after "
            "appending any number of blank lines; the legend's line terminator consumes CRLF as one unit. Trailing "
            "blanks inside rows and the whole legend grammar are covered by the correspondence (front-end dump of "
            "model vs implementation on every variant) and by the property's oracle (parsed output of each variant "
            "equals the base document's) on the implementation.",
    "note": "Trusted: Lean kernel; hand-written model of lines/StringBuffer/legend grammar validated by correspondence; "
            "theorems are about the front end (the rest of the conversion is a function of its result); trailing "
            "blanks per row not yet a theorem.",
    "technique": "Lean 4 proof over executable model + differential correspondence (front end) + variant oracle on implementation",
    "design_ref": "5 (C17)",
}

NOT_YET = {
}

ALL = ["C%02d" % i for i in range(1, 21)]


def main():
    checks = []
    for pid in ALL:
        if pid in CLAIMED:
            c = CLAIMED[pid]
            checks.append({
                "property_id": pid,
                "quick_cmd": "./check %s --tier quick" % pid,
                "thorough_cmd": "./check %s --tier thorough" % pid,
                "evidence_file": "evidence/%s.json" % pid,
                "replay_cmd_template": "./check %s --replay {path}" % pid,
                "engine": "lean-model",
                "level_claimed": {"category": "proof", "text": c["text"], "design_ref": c["design_ref"]},
                "level_note": c["note"],
                "technique": c["technique"],
            })
    na = []
    for pid in ALL:
        if pid not in CLAIMED:
            na.append({"property_id": pid,
                       "reason": NOT_YET.get(pid, "not claimed yet: model/theorems for this property are under construction (DESIGN.md section 5); the technique applies")})
    m = {
        "version": 1,
        "setup_cmd": "./setup.sh",
        "hooks": {
            "guard": "cargo feature `verif` of crate svgbob",
            "enable": "the harness crate /verif/harness depends on /repo/crates/svgbob with features=[\"verif\"]",
            "baseline_off_cmd": "cd /repo && cargo test --workspace --no-fail-fast --offline",
            "source_commits": ["f5ea29f"],
            "add_only": True,
        },
        "engines": [{
            "name": "lean-model",
            "path": "lean/",
            "serves_properties": sorted(CLAIMED.keys()),
            "kind_free_text": "Lean 4 executable model + theorems (lake), line-protocol driver, Rust harness calling the real code, Python orchestration (tools/)",
        }],
        "checks": checks,
        "not_applicable": na,
        "notes": "See DESIGN.md. ./check <id> regenerates tables, rebuilds theorems and harness from /repo's working tree, runs correspondence and the oracle search.",
    }
    with open(os.path.join(VERIF, "MANIFEST.json"), "w") as f:
        json.dump(m, f, indent=1)


if __name__ == "__main__":
    main()

#!/usr/bin/env python3
"""writes /verif/MANIFEST.json from the table below (kept in one place so it stays valid)"""
import json
import os

VERIF = os.path.dirname(os.path.dirname(os.path.abspath(__file__)))

CLAIMED = {
    "C15": {
        "text": "Lean theorems about the model of escape_line/CellBuffer::from: for every row the quoted segments "
                "returned by line_parse are in range and ordered (no slice panic), the unescaped row equals the "
                "row with exactly the segment columns replaced by spaces (nothing is displaced, quoted content "
                "yields no cell), and each collected text is the verbatim content anchored at the opening quote. "
                "The model is tied to the Rust code by differential runs of escape_line (hook) and of the whole "
                "front end, and the property's own oracle (render(quoted) = render(blanked) + texts) is evaluated "
                "on the implementation.",
        "note": "Trusted: Lean kernel; hand-written model of escape_line/line_parse validated by correspondence on "
                "generated rows; unicode-width/is_whitespace values taken from the real crates per case; theorem "
                "hypothesis ColsOk excludes zero-width/NUL characters inside quotes; a quoted {tag} inside a shape "
                "is consumed as a class (caveat of the property, excluded from the oracle).",
        "technique": "Lean 4 proof over executable model + differential correspondence (hooked escape_line, front end) + oracle search",
        "design_ref": "5 (C15)",
    },
}

CLAIMED["C17"] = {
    "text": "Lean theorems about the model of str::lines/StringBuffer/CellBuffer::from: for every CR-free document "
            "the drawn part yields the same cells and quoted texts after LF->CRLF conversion (lines_crlf) and after "
            "appending any number of blank lines; trailing blanks of the rows (no quote, white space, one column each: spaces "
            "and tabs) change neither the cells nor the quoted texts (rows_trailing_blanks: the quote parser finds the same "
            "segments over row ++ blanks, the copy loop appends them, the cell map skips them); the legend's line terminator "
            "consumes CRLF as one unit. The whole legend grammar is covered by the correspondence (front-end dump of "
            "model vs implementation on every variant) and by the property's oracle (parsed output of each variant "
            "equals the base document's) on the implementation.",
    "note": "Trusted: Lean kernel; hand-written model of lines/StringBuffer/legend grammar validated by correspondence; "
            "theorems are about the front end (the rest of the conversion is a function of its result).",
    "technique": "Lean 4 proof over executable model + differential correspondence (front end) + variant oracle on implementation",
    "design_ref": "5 (C17)",
}

CLAIMED["C02"] = {
    "text": "Lean theorems, for all inputs: document_is_well_formed — the serialized document (compact or indented) built "
            "by svgRoot from any fragments, legend and settings is accepted by the XML recognizer of Spec/Xml.lean (subset "
            "of XML 1.0: balanced matching tags, unique attribute names per tag, quoted values, legal characters and "
            "references only), proved by mutual induction over the node tree; "
            "every text node and the style sheet text are safe character data (no '<', "
            "every '&' starts one of six fixed references, only characters XML can represent); every attribute value "
            "renders without quote, '<' or '&' (numbers are digits/sign/point, class tokens are identifiers, the rest "
            "are fixed literals) for the whole document built by svgRoot from any fragments, any legend, any settings; "
            "decoding the character data returns exactly the XML-representable input characters; the root is svg in "
            "the SVG namespace with numeric size. The model's serializer is tied byte-for-byte to the implementation "
            "by rendering the implementation's own fragments in the model; well-formedness of the implementation's "
            "output is additionally judged by expat on hostile inputs in every channel.",
    "note": "Trusted: Lean kernel; hand model of escaping/node building/sauron render validated byte-for-byte by "
            "correspondence; the recognizer is a subset of XML 1.0 written by hand (its agreement with expat is "
            "checked on the implementation's output and on damaged copies); f32 number formatting outside the model "
            "for non-dyadic results.",
    "technique": "Lean 4 proof (XML well-formedness of every rendered document + lexical safety + decode/escape round trip) over executable model + byte-level back-end correspondence + expat oracle",
    "design_ref": "5 (C02)",
}
CLAIMED["C08"] = {
    "text": "In the model the element/attribute vocabulary is closed by typing (finite enumerations, no constructor for "
            "comments, PIs, CDATA, entities). Lean theorems for all inputs: text channel and legend channel produce "
            "safe character data without '<'; {tag} names reaching a class attribute consist of identifier characters "
            "only (never quote, '<', '&', white space); the whole document is lexically safe. Byte-level back-end "
            "correspondence ties the model's serializer to the implementation; a payload oracle (17 payloads x 6 "
            "channels with unique markers) checks the parsed implementation output for foreign elements/attributes.",
    "note": "Trusted: Lean kernel; model/implementation correspondence; expat for reading the implementation's output.",
    "technique": "Lean 4 proof (closed vocabulary by typing, lexical safety invariants through the containment forest) + byte-level correspondence + payload oracle",
    "design_ref": "5 (C08)",
}
CLAIMED["C18"] = {
    "text": "Lean theorems about svgRoot: children = style? ++ defs? ++ backdrop? ++ geometry with geometry a function "
            "of fragments and scale only; root attributes; an overridden size changes only root and backdrop "
            "dimensions; the style element depends on settings only through the base sheet; the compressed renderer "
            "writes no indentation. The base sheet itself is TRANSLATED from the jss! block of CellBuffer::style on every run "
            "(Gen/StyleSheet): the model renders it from the regenerated rules and the settings, byte for byte the "
            "implementation's; every setting is named by some rule and a rule that names no changed setting is rendered the same "
            "(every_setting_reaches_the_sheet, rule_ignores_unmentioned_settings). Byte-level back-end correspondence over all switch combinations, random style "
            "strings, override sizes and entry points; oracle on the implementation compares all 8 switch combinations, "
            "changed colours/fonts, override sizes, to_svg vs pretty vs compressed.",
    "note": "Trusted: Lean kernel; the whole-document model takes the captured sheet (so hostile settings strings go through the "
            "implementation's own escape), the translated sheet is compared with it for plain settings strings; "
            "pretty/compressed equivalence judged on parsed documents (expat), not proved.",
    "technique": "Lean 4 proof over executable model of the root/serializer + byte-level correspondence + differential oracle across settings",
    "design_ref": "5 (C18)",
}

CLAIMED["C09"] = {
    "text": "Lean theorems about the fragment merge of the model: for every fragment list, every direction, after "
            "merge_recursive no two plain lines (earlier first) are collinear and touching; for a WHOLE SCOPE (any span, any "
            "characters and glyphs of the regenerated tables) no two fragments at different positions of the flattened contact "
            "groups are plain lines that are collinear and touching, in either order (scope_has_no_collinear_touching_lines: "
            "table lines are proper grid lines — decided —, merging keeps that, the relation is symmetric for such lines); the loop has reached its "
            "fixpoint (fuel adequacy proved) and a line cannot occur twice; the collinearity test is exact on the "
            "quarter-cell grid; a straight run of unit pieces of ANY length in any of the four directions merges "
            "into exactly one line, dashed iff some piece is dashed (induction over the greedy pass). The whole model "
            "pipeline is tied to the implementation byte-for-byte end to end and at the endorsement stage; the "
            "property's oracle (runs 1..400 at offsets, pairwise exact-rational test on all line pairs) runs on the "
            "implementation.",
    "note": "Trusted: Lean kernel (+ Mathlib ring tactic, standard axioms); hand model tied by correspondence; f32 "
            "point-on-segment of parry is modelled exactly (differences surface as disagreements); pairs across "
            "different scopes/spans and after the re-endorsement stage are covered by the oracle, not yet by a theorem.",
    "technique": "Lean 4 proof (greedy-loop fixpoint + induction over runs) over executable model + byte-level end-to-end correspondence + exact-geometry oracle",
    "design_ref": "5 (C09)",
}

CLAIMED["C11"] = {
    "text": "Lean theorem scale_commutes, for every fragment list, legend and configuration: changing the scale by any "
            "positive rational factor a/b turns the document built by svgRoot (containment forest, {tag} classes, "
            "node building, root, backdrop) into the same document with every scaled number multiplied by a over a "
            "denominator multiplied by b — kinds, counts, order, classes, flags, texts, style sheet and marker "
            "definitions unchanged; plus cell_is_8_by_16. The model is tied to the implementation byte-for-byte end "
            "to end at the property's scales; the relational oracle compares element multisets of the "
            "implementation's output at two scales.",
    "note": "Trusted: Lean kernel (+Mathlib ring); correspondence; f32 rounding of scale*coordinate for non-dyadic "
            "constants (the 0.35 of the '#' diamond) is outside the model and compared with tolerance 2^-18.",
    "technique": "Lean 4 proof (scaling commutes with the whole back end) over executable model + byte-level end-to-end correspondence + relational oracle",
    "design_ref": "5 (C11)",
}
CLAIMED["C12"] = {
    "text": "Lean theorems: canvas formula (width = scale*(last column+2), height = 2*scale*(last row+2), empty = 2x2 cells) "
            "and root/backdrop carry it; decided over the REGENERATED tables: every behaviour row of the ASCII table keeps "
            "its fragments within one cell of its own cell and reaches left/up only under a condition that needs a "
            "neighbour on that side (guard soundness proved), glyph fragments stay inside their cell, all 22 catalogue "
            "circles lie inside their drawing's box plus margin; text anchors lie inside their cell. Lifted through the "
            "pipeline (shapes_inside_canvas): for every span with cells in columns 0..mx, rows 0..my, every rectangle "
            "endorsed from it and every fragment of its contact groups (lines, marker lines, polygons, bullets, texts) has "
            "all control points in [0,(mx+2)] x [0,(my+2)] cells - through per-cell table lookups, the ordered fragment "
            "buffer, every merge, contact grouping and sharp/rounded rectangle endorsement; a catalogue circle matched in "
            "any span at any position lies inside that span's canvas (circle_anywhere_inside_canvas). The oracle checks "
            "all element extents on the implementation (canvas size recomputed independently from display widths). Known finding: quoted-channel texts are not "
            "counted in the canvas (pinned test escaped_shape expects exactly that).",
    "note": "Trusted: Lean kernel; table translator (validated against the real closures); correspondence; end points "
            "of catalogue arcs, arc bulge and the extent of a text beyond its first cell are oracle only.",
    "technique": "Lean 4 proof (canvas formula; containment of every shape in the canvas as an invariant through the pipeline, from decide +kernel facts over the regenerated tables with a proved guard analysis) + end-to-end correspondence + containment oracle with known-finding classifier",
    "design_ref": "5 (C12)",
}

CLAIMED["C04"] = {
    "text": "Lean theorems: a character without drawing meaning yields exactly one one-character text fragment that shows it "
            "in its own cell; merging two cell texts shows exactly the (cell, character) pairs the two showed (each "
            "character at the column of the start plus the buffer columns of its predecessors, double-width = 2); the "
            "whole merge_recursive of a scope, for every fragment list and any number of passes, and the contact grouping "
            "preserve the multiset of shown (cell, character) pairs (generic denotation-preservation theorem of the greedy "
            "loop). For a whole scope (cells pairwise different, no NUL filler): the tables hold geometry only (decided over "
            "the regenerated tables), so a cell shows nothing or exactly its own (cell, character); the contact groups show — "
            "with multiplicity — what the cells show (scope_shows_what_its_cells_show); every label character of the scope "
            "is shown exactly once (label_shown_exactly_once) and nothing foreign is shown (nothing_foreign_is_shown). "
            "End-to-end byte correspondence of the whole model; oracle on the implementation: every text element "
            "anchored at a cell anchor, shows the input characters at consecutive display columns, every non-drawing "
            "character covered exactly once, none twice (exhaustive short rows over {a, é, 一, U+0301, space, -} + random).",
    "note": "Trusted: Lean kernel; correspondence; unicode-width values from the real crate; the passage of texts through "
            "re-endorsement and the containment forest (flattening emits each fragment once; tags are C16) is covered by "
            "the oracle, not by a theorem yet.",
    "technique": "Lean 4 proof (denotation preservation of the greedy merge loop, per-merge text invariant) + byte-level end-to-end correspondence + coverage oracle",
    "design_ref": "5 (C04)",
}

CLAIMED["C06"] = {
    "text": "Lean theorem whole_middle_equivariant, for every integer offset (k, n), catalogue, cell set and quoted texts: the "
            "whole middle of the pipeline (endorseAll: span grouping, catalogue circles/arcs, per-cell table fragments, ordered "
            "fragment buffer, fragment merge, contact grouping, sharp and rounded rectangle endorsement, re-endorsement, "
            "singles/groups split, quoted texts) applied to the moved cells gives exactly the moved result, element by "
            "element in the same order. Composed from stage theorems (cell-local lookups see the same neighbourhood; every "
            "geometric predicate is a function of coordinate differences; Fragment::merge in all cases incl. heading and "
            "distance thresholds; bounding boxes move with their fragments given the invariant that no polygon is empty, "
            "decided over the regenerated tables and preserved by every merge). Front end at the level of rows "
            "(rows_to_fragments_equivariant: n blank rows in front and every row indented by k blanks, quoted regions "
            "included, give the moved cells and quoted texts). Last stage: nesting_is_position_independent (the containment "
            "forest of the moved fragments is the moved forest) and document_of_the_moved_drawing (the document built from the "
            "moved cells, fragments and groups is the old document with the canvas grown by scale*(k, 2n) cells and exactly "
            "that offset added to every abscissa/ordinate of every node, in the same order; kinds, classes, sizes, radii, flags, "
            "texts, style sheet and marker definitions unchanged). Splitting the text into rows and the legend cut-off are "
            "covered by the byte-level end-to-end correspondence at offsets up to (400, 200) and by the shift oracle on the "
            "implementation (svg(shifted) = svg(original) translated).",
    "note": "Trusted: Lean kernel (+Mathlib ring); correspondence; f32 absolute-coordinate effects in the implementation "
            "(parry's relative-epsilon point-on-segment test, arc centre ==) are outside the exact model and would surface "
            "as model/implementation disagreements at large offsets; str::lines and the legend cut-off under a shift are not theorems.",
    "technique": "Lean 4 proof (translation equivariance of the whole middle pipeline, composed from stage theorems) + byte-level end-to-end correspondence at large offsets + relational shift oracle",
    "design_ref": "5 (C06)",
}
CLAIMED["C10"] = {
    "text": "Lean theorem endorsement_independent: for cells on the two sides of a blank column or row, the top-level "
            "fragments and groups of the whole drawing are, as multisets, those of the low side plus those of the high side "
            "(absolute coordinates, so each part is in its place). Proved through a generic locality theorem of the greedy "
            "merge loop (restriction to a class commutes with merge_recursive, via iterated-pass fixpoint uniqueness), its "
            "instance for spans (no merge across the gap), and the span-by-span structure of all later stages. Corollary "
            "juxtaposition_is_union (with C06's whole-pipeline translation theorem): A next to B moved by (k, n) gives the "
            "fragments of A plus the fragments of B moved by (k, n). The last stage only reorders: for tag-free fragments the "
            "nodes fragments_to_node emits are a permutation of the nodes of the fragments (the containment forest holds "
            "exactly the fragments it was built from and into_nodes emits each once: last_stage_only_reorders, "
            "last_stage_respects_permutations), so the multiset statement reaches the document's elements. End-to-end "
            "byte correspondence on juxtaposed diagrams; the union oracle (elements of svg(A+B) = svg(A) + shifted svg(B), "
            "canvas covers both) runs on the implementation.",
    "note": "Trusted: Lean kernel; correspondence; document order is outside the theorems (multisets; inputs tag-free); "
            "the endorsement theorem assumes the three runs do not panic (C01).",
    "technique": "Lean 4 proof (locality of the greedy merge loop, multiset union at the endorsement stage) + byte-level end-to-end correspondence + union oracle",
    "design_ref": "5 (C10)",
}

CLAIMED["C03"] = {
    "text": "Lean theorem strokes_in_every_neighbourhood over the REGENERATED table: for every 8-neighbourhood whose cells "
            "come from the alphabet {space, -, |, +, label}, the fragments '-', '|' and '+' emit are exactly the per-character "
            "strokes of the specification, solid lines only (sound reduction: rows are local in the neighbours they mention "
            "— proved — so diagonals cannot matter — decided — and the 4^4 axis neighbourhoods are decided by kernel "
            "evaluation); label characters have no property; a lone '+' is text; a rectangle replaces exactly four lines that "
            "are its sides (after the is_rect fix). Stroked point sets, over RATIONAL points of the plane: merging two collinear "
            "touching grid lines strokes exactly the union (onSeg_union), hence merge_recursive of any stroke-only scope keeps "
            "the stroked point set (generic union-preservation theorem of the greedy loop), the fragment buffer / "
            "abs_fragment_spans / contact grouping add and lose nothing, so scope_strokes_exactly_the_specified: for EVERY "
            "span over the alphabet the contact groups stroke exactly the specified strokes of its cells; and a rectangle's "
            "outline is exactly the union of the four lines it replaces (rect_outline_is_its_lines). End-to-end: byte correspondence on "
            "the same grids, and the stroke oracle (independent reference renderer, quarter-unit edge sets) exhaustively on "
            "all grids up to 2x3/3x2/1x6 (quick) or 3x3, 2x4, 4x2, 1x8, 8x1 (thorough) plus random grids up to 14x8.",
    "note": "Trusted: Lean kernel; table translator (validated against the real closures); correspondence; the theorems cover "
            "cells -> fragment buffer -> merged lines -> contact groups, and group -> rectangle; the re-computation of rejected "
            "groups on their reduced spans (stage 11) is not a theorem (oracle and correspondence cover it).",
    "technique": "Lean 4 proof (decide +kernel over regenerated table with proved locality reduction; rect soundness) + byte-level correspondence + exhaustive small-grid stroke oracle",
    "design_ref": "5 (C03)",
}
CLAIMED["C05"] = {
    "text": "Lean theorem rect_only_from_its_four_sides: a contact group is endorsed as a sharp rectangle only if it has exactly "
            "four fragments and each side of the emitted rectangle (= the group's bounding box) is one of the group's lines — "
            "ladders, an H with two bars and overhanging sides are never endorsed (true since the is_rect fix); for groups of "
            "proper grid lines the group IS the four sides and the rectangle's outline is, as a set of rational points, exactly "
            "the union of the group's lines (rect_outline_is_exactly_the_group, group_is_the_four_sides). Completeness at the "
            "endorsement stage for EVERY box: the four side lines of any box x0<x1, y0<y1, solid or dashed, are endorsed as "
            "exactly its rectangle, dashed iff some side is (every_box_is_endorsed). Completeness end to end "
            "(every box of the family -> exactly one rect with position, size, radius, dashed class) is checked on the "
            "implementation by the bounded sweep (widths 0..20 x heights 0..10 quick, 0..60 x 0..30 thorough, x offsets x "
            "corner styles x edge styles x interior text) and soundness of every emitted rect on random grids; byte-level "
            "correspondence ties the model. Known finding: rounded boxes with zero interior width/height.",
    "note": "Trusted: Lean kernel; correspondence; rounded-rect soundness and completeness for all sizes are oracle-level, "
            "not theorems.",
    "technique": "Lean 4 proof (soundness of the rectangle endorsement predicate) + byte-level correspondence + completeness sweep and soundness oracle with known-finding classifier",
    "design_ref": "5 (C05)",
}
CLAIMED["C13"] = {
    "text": "By kernel evaluation over the REGENERATED catalogue through the model's own front end and span merge: each of the 22 "
            "drawings forms exactly one span, is endorsed as exactly its own circle with no cell left over, the horizontal "
            "extent equals the drawing's, the radius follows the documented rule, every character lies within one cell "
            "diagonal of the circle, sizes are pairwise distinct. By proof: the catalogue endorsement (localise, match, place) "
            "and the span grouping are translation equivariant for every offset, so a drawing that matches at the origin "
            "matches the moved circle anywhere. 'Unrelated content elsewhere' is C10. Oracle on the implementation: 22 "
            "drawings x offsets up to (60,40) x optional far content; byte-level correspondence.",
    "note": "Trusted: Lean kernel; translator for circle_map.rs art rows; correspondence; the kernel evaluation takes ~12 min "
            "when circle_map.rs or the model changes (cached otherwise).",
    "technique": "Lean 4 proof (decide +kernel over regenerated catalogue + translation equivariance of the catalogue match) + byte-level correspondence + placement oracle",
    "design_ref": "5 (C13)",
}
CLAIMED["C14"] = {
    "text": "Decided over the REGENERATED tables: every arrowhead polygon of the ASCII table (outside the shallow '.'/\' connector "
            "rows) and every triangle glyph is a filled triangle whose tip lies on the cell axis of its direction and whose "
            "base straddles it; all arrow characters have heads; table arcs have a centre. Proved for all inputs: Fragment::merge "
            "never alters or produces polygons or arcs; merging a line with a bullet yields a marker line ending at the bullet "
            "centre, keeping the farther line end, with the marker kind of the bullet (true since the merge_circle fix). Oracle "
            "on the implementation: lines 1..40 x 8 directions x arrow characters/glyphs x bullets * o O x offsets (tip on "
            "axis beyond the line end, base straddles, marked end = cell centre, no gap), rounded outlines with a stub (arc "
            "endpoints meet line ends, centre inside); byte-level correspondence.",
    "note": "Trusted: Lean kernel; table translator; correspondence; the geometry of corner arcs is oracle-level.",
    "technique": "Lean 4 proof (decide +kernel over regenerated tables; merge_circle geometry) + byte-level correspondence + geometric oracle",
    "design_ref": "5 (C14)",
}
CLAIMED["C16"] = {
    "text": "Lean theorems about the pom grammar model: an entry 'name = {decl}' with identifier name and brace-free "
            "declaration parses to (name, decl) whatever follows; a legend of ANY number of such entries, one per line, parses to "
            "exactly those entries in order (legend_roundtrip: induction through the model of pom's list loop, fuel adequate); legend CSS is '.svgbob .name{ decl }' joined by newlines in "
            "order; with an accepted legend only the text before the header is drawn, a rejected legend is drawn entirely. "
            "About the containment forest: a tag that fits a shape and none of its children becomes that shape's classes and "
            "is not kept; a child that encloses it wins (innermost); other text is kept; a tag fitting nothing is not consumed. "
            "Correspondence: both grammars function-by-function through hooks (valid + malformed streams) and end to end; "
            "oracle on the implementation: legends with 0..6 entries over a hostile declaration alphabet, tags in boxes, "
            "rounded boxes, circles, nested boxes, beside text, outside shapes.",
    "note": "Trusted: Lean kernel; hand transcription of pom combinators validated by correspondence; 'inside' is the "
            "implemented bounding-box notion.",
    "technique": "Lean 4 proof (grammar round trip, containment-forest cases) + function-level and end-to-end correspondence + legend/tag oracle",
    "design_ref": "5 (C16)",
}

CLAIMED["C01"] = {
    "text": "Every panic site of the library pipeline is an explicit value in the model and shown unreachable: Lean theorems "
            "endorsement_never_panics (no bounds().expect on an empty span, for every set of cells: spans, re-assembled "
            "contact spans and catalogue leftovers are handled), escape_line_slices_in_range, catalogue_initialises (the "
            "statics' asserts, by kernel evaluation over the regenerated drawings), table_polygons_nonempty, "
            "merge_loops_terminate (every greedy loop reaches its fixpoint within length+1 passes; fuel adequacy proved), "
            "conversion_total (the whole model conversion returns a document for every input, environment and configuration). "
            "All model functions are total (structural or fuel recursion checked by the kernel). Byte-level end-to-end "
            "correspondence on hostile inputs; harness: catch_unwind over hostile families x five entry points x extreme "
            "scales, time budget, size sweep with fitted growth exponent.",
    "note": "Partial for what no model can exhibit: wall-clock time, native stack depth, allocator aborts, Rust's "
            "sort-consistency panic, f32 NaN in util::ord; the endorse.rs expect(line/arc) sites are pattern matches in the "
            "model (unreachability argued in DESIGN.md, not a theorem).",
    "technique": "Lean 4 proof (no-panic and termination theorems over the executable model) + byte-level correspondence on hostile inputs + panic/timeout harness",
    "design_ref": "5 (C01)",
}
CLAIMED["C07"] = {
    "text": "Lean theorem fragment_buffer_order_independent: the one HashMap walk of the pipeline (visiting order is an explicit "
            "argument of the model) gives the same fragment buffer for every order (insertion of distinct cells into the "
            "ordered buffer commutes); the model conversion has no state argument, so it is a function of the input alone. "
            "Harness on the implementation: N fresh processes (independent hash seeds), a warm process under shuffled "
            "histories incl. shifted copies of the inputs, 2..16 threads racing on the first table-initialising calls in "
            "fresh processes; all outputs compared byte for byte; byte-level correspondence with the model.",
    "note": "Partial for thread interleavings inside once_cell (runtime); statics are pure functions of the regenerated "
            "tables in the model.",
    "technique": "Lean 4 proof (order independence of the fragment buffer) + byte-level correspondence + multi-process / history / racing-thread harness",
    "design_ref": "5 (C07)",
}
CLAIMED["C19"] = {
    "text": "Lean theorems about cliMain/cliBuild (model of main.rs with clap, number parsing, file system and library as "
            "parameters): every run is either a clean failure (non-zero status, diagnostic, nothing written, nothing on stdout) "
            "or delivers exactly the library's document (stdout + newline, or verbatim in the -o file with empty stdout); exit "
            "status zero iff delivered; --scale multiplies the default; defaults match the regenerated Settings::default; batch "
            "mode: status zero with one document per file iff every file could be converted and written. Correspondence: the "
            "built binary (from a scratch copy of the working tree) vs the model on generated argument vectors; oracle: "
            "binary vs library called in process, error cases, build over random directories.",
    "note": "Partial by nature: clap parsing, process exit, file-system atomicity, closed stdout are runtime.",
    "technique": "Lean 4 proof over a shell model + differential testing of the built binary against the model and the library",
    "design_ref": "5 (C19)",
}
CLAIMED["C20"] = {
    "text": "Lean theorems about handle/serve (stateless model of the axum handler): POST of UTF-8 within the limit -> 200 with "
            "the library's conversion, invalid UTF-8 -> 400, GET -> package name and version (regenerated from Cargo.toml), "
            "every request answered with one of the named statuses, answers independent of history and of request order, a "
            "hostile prefix changes nothing. Correspondence/oracle on the built server (scratch copy of the working tree): "
            "random request sequences incl. malformed requests, 2 MiB+ body (413), other methods/paths, sequentially and "
            "from 16 concurrent clients, liveness probe after hostile requests, bodies compared with the library in process.",
    "note": "Partial: axum routing/limits, connection handling, tokio scheduling and panic isolation are runtime.",
    "technique": "Lean 4 proof over a stateless handler model + live differential testing of the built server",
    "design_ref": "5 (C20)",
}

NOT_YET = {
}

ALL = ["C%02d" % i for i in range(1, 21)]


# whole-conversion statements added later (Model/Convert.convertDoc is the function the driver serializes for the byte-level
# end-to-end correspondence); appended to the texts above
EXTRA = {
    "C01": " whole_conversion_returns: Model/Convert.convertDoc returns a document for every text, environment, settings value and "
           "catalogue. arcs_without_centre_in_the_tables: exactly one arc of the regenerated tables (the glyph U+2939) has a chord "
           "longer than its diameter (NaN centre in the implementation, consumed by f32 == only).",
    "C02": " whole_conversion_is_well_formed: the document convertDoc returns serializes, compact or indented, to one well-formed element.",
    "C03": " every_cell_stroke_lives_on_in_one_fragment: each cell fragment is carried by one merged fragment of its scope whose span "
           "holds the cell. signal_levels_are_the_sources: the signal intensities and the levels of the three overlap predicates are "
           "regenerated from property.rs.",
    "C05": " every_rounded_box_is_endorsed: the four shortened sides and the four quarter arcs of any rounded box (corner radius r > 0, "
           "sides of positive length, each side solid or dashed), in the order the pipeline leaves them, are endorsed as exactly the "
           "rectangle of the box with radius r; a kernel-evaluated instance shows the pipeline produces that list for a drawn box.",
    "C07": " fragment_ranks_are_the_sources: the tie-break of the per-cell fragment order (Fragment::rank) is regenerated from fragment.rs.",
    "C08": " whole_conversion_is_lexically_safe: the document Model/Convert.convertDoc returns is lexically safe for every text.",
    "C09": " no_emitted_group_has_collinear_touching_lines: every group of the whole endorsement stage (every <g>) is a contact group "
           "of one span, so it holds no two plain lines that are collinear and touching.",
    "C11": " whole_conversion_scales: convertDoc at scale (n*a)/(d*b) is convertDoc at n/d with every scaled number multiplied by a "
           "(denominator by b), for every text.",
    "C12": " catalogue_matches_inside_canvas: whatever the catalogue stage accepts in a span (circle, quarter, half or three-quarter "
           "arc) has its control points inside the canvas of the span; catalogue_fragments_stay_near_their_drawing decides the "
           "hypothesis over the regenerated catalogue. Arc bulge between the end points stays with the oracle.",
    "C14": " signal_levels_are_the_sources: the signal intensities the table conditions compare are regenerated from property.rs.",
    "C15": " quoted_texts_are_only_appended: the endorsement stage with quoted texts is the stage of the cells alone plus one verbatim "
           "text fragment per quoted text appended to the top-level fragments.",
    "C16": " whole_conversion_of_a_drawing_with_a_legend: convertDoc (body ++ legend text of entries es) is the conversion of the body "
           "alone with exactly es, in order, as the legend rules (body without '#', well-formed entries).",
    "C17": " whole_conversion_ignores_crlf, whole_conversion_ignores_trailing_line_feeds: for a legend-free document without stray "
           "carriage returns convertDoc gives the same document under CRLF and with any number of line feeds appended.",
    "C18": " whole_conversion_layout: the children of the root convertDoc returns are style?, defs?, backdrop?, then a geometry shared "
           "by every configuration with the same scale.",
}


def main():
    checks = []
    for pid in ALL:
        if pid in CLAIMED:
            c = CLAIMED[pid]
            checks.append({
                "property_id": pid,
                "quick_cmd": "./check %s --tier quick" % pid,
                "thorough_cmd": "./check %s --tier thorough" % pid,
                "evidence_file": "evidence/%s.json" % pid,
                "replay_cmd_template": "./check %s --replay {path}" % pid,
                "engine": "lean-model",
                "level_claimed": {"category": "proof", "text": c["text"] + EXTRA.get(pid, ""), "design_ref": c["design_ref"]},
                "level_note": c["note"],
                "technique": c["technique"],
            })
    na = []
    for pid in ALL:
        if pid not in CLAIMED:
            na.append({"property_id": pid,
                       "reason": NOT_YET.get(pid, "not claimed yet: model/theorems for this property are under construction (DESIGN.md section 5); the technique applies")})
    m = {
        "version": 1,
        "setup_cmd": "./setup.sh",
        "hooks": {
            "guard": "cargo feature `verif` of crate svgbob",
            "enable": "the harness crate /verif/harness depends on /repo/crates/svgbob with features=[\"verif\"]",
            "baseline_off_cmd": "cd /repo && cargo test --workspace --no-fail-fast --offline",
            "source_commits": ["f5ea29f", "9dc2870"],
            "add_only": True,
        },
        "engines": [{
            "name": "lean-model",
            "path": "lean/",
            "serves_properties": sorted(CLAIMED.keys()),
            "kind_free_text": "Lean 4 executable model + theorems (lake), line-protocol driver, Rust harness calling the real code, Python orchestration (tools/)",
        }],
        "checks": checks,
        "not_applicable": na,
        "notes": "See DESIGN.md. ./check <id> regenerates tables, rebuilds theorems and harness from /repo's working tree, runs correspondence and the oracle search.",
    }
    with open(os.path.join(VERIF, "MANIFEST.json"), "w") as f:
        json.dump(m, f, indent=1)


if __name__ == "__main__":
    main()

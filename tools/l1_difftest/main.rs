use std::io::Write;
use svgbob::buffer::fragment::Fragment;
use svgbob::map::{ASCII_PROPERTIES, UNICODE_FRAGMENTS, UNICODE_PROPERTIES};
use svgbob::Property;

fn mi(v: f32) -> i64 {
    (v as f64 * 1000.0).round() as i64
}
fn b(v: bool) -> u8 {
    v as u8
}
fn canon(f: &Fragment) -> String {
    match f {
        Fragment::Line(l) => format!("L {} {} {} {} {}", mi(l.start.x), mi(l.start.y), mi(l.end.x), mi(l.end.y), b(l.is_broken)),
        Fragment::Arc(a) => format!("A {} {} {} {} {} {} {}", mi(a.start.x), mi(a.start.y), mi(a.end.x), mi(a.end.y), mi(a.radius), b(a.major_flag), b(a.sweep_flag)),
        Fragment::Circle(c) => format!("C {} {} {} {}", mi(c.center.x), mi(c.center.y), mi(c.radius), b(c.is_filled)),
        Fragment::Polygon(p) => {
            let pts: Vec<String> = p.points.iter().map(|q| format!("{} {}", mi(q.x), mi(q.y))).collect();
            let tags: Vec<String> = p.tags.iter().map(|t| format!("{:?}", t)).collect();
            format!("P [{}] {} [{}]", pts.join(";"), b(p.is_filled), tags.join(";"))
        }
        Fragment::Rect(r) => format!("R {} {} {} {} {} {} {}", mi(r.start.x), mi(r.start.y), mi(r.end.x), mi(r.end.y), b(r.is_filled),
            match r.radius { Some(x) => mi(x).to_string(), None => "none".to_string() }, b(r.is_broken)),
        other => format!("? {:?}", other),
    }
}

fn main() {
    let out = std::fs::File::create(std::env::args().nth(1).expect("out path")).unwrap();
    let mut out = std::io::BufWriter::new(out);
    let empty = Property::empty();
    let prop = |c: char| -> &Property {
        match ASCII_PROPERTIES.get(&c) {
            Some(p) => p,
            None => UNICODE_PROPERTIES.get(&c).unwrap_or(&empty),
        }
    };
    // unicode rows (as sorted canonical strings)
    for (ch, frags) in UNICODE_FRAGMENTS.iter() {
        let mut v: Vec<String> = frags.iter().map(canon).collect();
        v.sort();
        writeln!(out, "U {} {}", *ch as u32, v.join(" | ")).unwrap();
    }
    // the fragments of every behaviour row
    let chars: Vec<char> = ASCII_PROPERTIES.keys().cloned().collect();
    for &ch in &chars {
        let p = &ASCII_PROPERTIES[&ch];
        let rows = (p.behavior)(&empty, &empty, &empty, &empty, &empty, &empty, &empty, &empty);
        writeln!(out, "N {} {}", ch as u32, rows.len()).unwrap();
        for (i, (_, frags)) in rows.iter().enumerate() {
            let v: Vec<String> = frags.iter().map(canon).collect();
            writeln!(out, "F {} {} {}", ch as u32, i, v.join(" | ")).unwrap();
        }
    }
    let mut alphabet: Vec<char> = vec![' ', 'a'];
    alphabet.extend(chars.iter().cloned());
    alphabet.extend("─│╭╯╮╰┼╱╲═∠▾◆█⤹◜".chars());
    let emit = |out: &mut std::io::BufWriter<std::fs::File>, ch: char, nb: [char; 8]| {
        let p = &ASCII_PROPERTIES[&ch];
        let rows = (p.behavior)(prop(nb[0]), prop(nb[1]), prop(nb[2]), prop(nb[3]), prop(nb[4]), prop(nb[5]), prop(nb[6]), prop(nb[7]));
        let bits: String = rows.iter().map(|(c, _)| if *c { '1' } else { '0' }).collect();
        writeln!(out, "B {} {} {} {} {} {} {} {} {} {}", ch as u32, nb[0] as u32, nb[1] as u32, nb[2] as u32, nb[3] as u32,
            nb[4] as u32, nb[5] as u32, nb[6] as u32, nb[7] as u32, bits).unwrap();
    };
    let mut seed: u64 = 0x9E3779B97F4A7C15;
    let mut rnd = move |n: usize| -> usize {
        seed = seed.wrapping_mul(6364136223846793005).wrapping_add(1442695040888963407);
        ((seed >> 33) as usize) % n
    };
    for &ch in &chars {
        emit(&mut out, ch, [' '; 8]);
        // pairs of directions (includes singles through the blank)
        for d1 in 0..8 {
            for d2 in (d1 + 1)..8 {
                for &c1 in &alphabet {
                    for &c2 in &alphabet {
                        let mut nb = [' '; 8];
                        nb[d1] = c1;
                        nb[d2] = c2;
                        emit(&mut out, ch, nb);
                    }
                }
            }
        }
        // random full neighbourhoods
        for _ in 0..4000 {
            let mut nb = [' '; 8];
            for d in 0..8 {
                nb[d] = alphabet[rnd(alphabet.len())];
            }
            emit(&mut out, ch, nb);
        }
    }
}

import Svgbob.Gen.AsciiTable
import Svgbob.Gen.UnicodeTable
import Svgbob.Gen.CircleArt
open Svgbob Svgbob.Gen

def b (v : Bool) : String := if v then "1" else "0"
def tagName : PolygonTag → String
  | .arrowTopLeft => "ArrowTopLeft" | .arrowTop => "ArrowTop" | .arrowTopRight => "ArrowTopRight"
  | .arrowLeft => "ArrowLeft" | .arrowRight => "ArrowRight" | .arrowBottomLeft => "ArrowBottomLeft"
  | .arrowBottom => "ArrowBottom" | .arrowBottomRight => "ArrowBottomRight" | .diamondBullet => "DiamondBullet"

def canon : Frag → String
  | .line s e br => s!"L {s.x} {s.y} {e.x} {e.y} {b br}"
  | .arc s e r m sw => s!"A {s.x} {s.y} {e.x} {e.y} {r} {b m} {b sw}"
  | .circle c r f => s!"C {c.x} {c.y} {r} {b f}"
  | .polygon pts f tags =>
    let ps := ";".intercalate (pts.map fun p => s!"{p.x} {p.y}")
    let ts := ";".intercalate (tags.map tagName)
    s!"P [{ps}] {b f} [{ts}]"
  | .rect s e f r br =>
    let rs := match r with | some x => toString x | none => "none"
    s!"R {s.x} {s.y} {e.x} {e.y} {b f} {rs} {b br}"
  | _ => "?"

def lookup (c : Char) : Entry :=
  match asciiTable.reverse.find? (·.ch == c) with
  | some e => e
  | none => match unicodeTable.reverse.find? (·.1 == c) with
    | some (ch, fr) => Entry.ofGlyph ch fr
    | none => Entry.empty

def dirIdx : Dir → Nat
  | .topLeft => 0 | .top => 1 | .topRight => 2 | .left => 3 | .right => 4
  | .bottomLeft => 5 | .bottom => 6 | .bottomRight => 7

def main (args : List String) : IO UInt32 := do
  let path := args.head!
  let h ← IO.FS.Handle.mk path .read
  let mut bad := 0
  let mut nU := 0
  let mut nF := 0
  let mut nB := 0
  let mut cache : Array (Nat × Entry) := #[]
  let mut line ← h.getLine
  while line != "" do
    let l : String := (line.splitOn "\n").head!
    let report := fun (what : String) (mine : String) => do
      IO.println s!"MISMATCH {what}\n  rust: {l}\n  lean: {mine}"
    if l.startsWith "U " then
      nU := nU + 1
      let ws := l.splitOn " "
      let cp := ws[1]!.toNat!
      let theirs := " ".intercalate (ws.drop 2)
      let e := lookup (Char.ofNat cp)
      let mine := " | ".intercalate ((e.behavior.flatMap (·.2)).map canon |>.toArray.qsort (· < ·) |>.toList)
      -- the BTreeMap keeps the last row of a char; the ascii table is not consulted here
      let e2 := match unicodeTable.reverse.find? (·.1 == Char.ofNat cp) with
        | some (_, fr) => " | ".intercalate (fr.map canon |>.toArray.qsort (· < ·) |>.toList)
        | none => "<missing>"
      if e2 != theirs then
        bad := bad + 1; report "unicode row" e2
      let _ := mine
    else if l.startsWith "N " then
      let ws := l.splitOn " "
      let e := lookup (Char.ofNat ws[1]!.toNat!)
      if e.behavior.length != ws[2]!.toNat! then
        bad := bad + 1; report "row count" (toString e.behavior.length)
    else if l.startsWith "F " then
      nF := nF + 1
      let ws := l.splitOn " "
      let cp := ws[1]!.toNat!
      let i := ws[2]!.toNat!
      let theirs := " ".intercalate (ws.drop 3)
      let e := lookup (Char.ofNat cp)
      let mine := match e.behavior[i]? with
        | some row => " | ".intercalate (row.2.map canon)
        | none => "<missing>"
      if mine != theirs then
        bad := bad + 1; report "behaviour fragments" mine
    else if l.startsWith "B " then
      nB := nB + 1
      let ws := (l.splitOn " ").toArray
      let cp := ws[1]!.toNat!
      let mut nbs : Array Entry := #[]
      for k in [2:10] do
        let c := ws[k]!.toNat!
        match cache.find? (·.1 == c) with
        | some (_, e) => nbs := nbs.push e
        | none =>
          let e := lookup (Char.ofNat c)
          cache := cache.push (c, e)
          nbs := nbs.push e
      let e := match cache.find? (·.1 == cp) with
        | some (_, e) => e
        | none => lookup (Char.ofNat cp)
      let nb : Dir → Entry := fun d => nbs[dirIdx d]!
      let mine := String.join (e.behavior.map fun row => b (row.1.eval nb))
      if mine != ws[10]! then
        bad := bad + 1
        if bad < 40 then report "condition bits" mine
    line ← h.getLine
  IO.println s!"checked {nU} unicode rows, {nF} behaviour rows, {nB} neighbourhoods: {bad} mismatches"
  IO.println s!"unicodeTable distinct chars: {(unicodeTable.map (·.1)).eraseDups.length}, circleArt rows: {circleArt.length}"
  return if bad == 0 then 0 else 1

//! Harness: runs the real svgbob code in-process on cases read from stdin (one per
//! line) and prints one canonical answer line per case. Used by /verif/tools/*.py.
//!
//! Every case runs under catch_unwind; a panic is answered as `<id> panic <hex msg>`.
use std::io::{self, BufRead, Write};
use std::panic;

use svgbob::Settings;
use unicode_width::{UnicodeWidthChar, UnicodeWidthStr};

fn hex(s: &str) -> String {
    let mut o = String::with_capacity(s.len() * 2 + 1);
    if s.is_empty() {
        return "-".to_string();
    }
    for b in s.as_bytes() {
        o.push_str(&format!("{:02x}", b));
    }
    o
}

fn unhex_bytes(h: &str) -> Vec<u8> {
    if h == "-" {
        return vec![];
    }
    let b = h.as_bytes();
    let mut out = Vec::with_capacity(b.len() / 2);
    let mut i = 0;
    while i + 1 < b.len() {
        let v = u8::from_str_radix(&h[i..i + 2], 16).expect("hex");
        out.push(v);
        i += 2;
    }
    out
}

fn unhex(h: &str) -> String {
    String::from_utf8(unhex_bytes(h)).expect("utf8")
}

/// settings token: `default` or comma separated k=v
/// scale=<f32 bits hex>|sw=<f32 bits hex>|fs=<usize>|ff=<hex>|fill=<hex>|bg=<hex>|sc=<hex>|b=0/1|s=0/1|d=0/1
fn parse_settings(tok: &str) -> Settings {
    let mut s = Settings::default();
    if tok == "default" {
        return s;
    }
    for kv in tok.split(',') {
        let mut it = kv.splitn(2, '=');
        let k = it.next().unwrap();
        let v = it.next().unwrap_or("");
        match k {
            "scale" => s.scale = parse_f32(v),
            "sw" => s.stroke_width = parse_f32(v),
            "fs" => s.font_size = v.parse().expect("fs"),
            "ff" => s.font_family = unhex(v),
            "fill" => s.fill_color = unhex(v),
            "bg" => s.background = unhex(v),
            "sc" => s.stroke_color = unhex(v),
            "b" => s.include_backdrop = v == "1",
            "s" => s.include_styles = v == "1",
            "d" => s.include_defs = v == "1",
            "" => {}
            _ => panic!("unknown settings key {}", k),
        }
    }
    s
}

/// a float is given either as decimal text or as `x<8 hex digits>` bit pattern
fn parse_f32(v: &str) -> f32 {
    if let Some(bits) = v.strip_prefix('x') {
        f32::from_bits(u32::from_str_radix(bits, 16).expect("bits"))
    } else {
        v.parse().expect("f32")
    }
}

fn run_lib(entry: &str, settings: &Settings, input: &str) -> String {
    if entry == "to_svg" {
        svgbob::to_svg(input)
    } else if entry == "pretty" {
        svgbob::to_svg_string_pretty(input)
    } else if entry == "compressed" {
        svgbob::to_svg_string_compressed(input)
    } else if entry == "settings" {
        svgbob::to_svg_with_settings(input, settings)
    } else if entry == "reuse" {
        // one buffer rendered three times through the public API: default settings, another scale, then the
        // requested settings; the last document must be the one a fresh buffer gives
        let cb = svgbob::CellBuffer::from(input);
        let _first: svgbob::Node<()> = cb.get_node();
        let mut other = settings.clone();
        other.scale = settings.scale * 2.5;
        let _second: (svgbob::Node<()>, f32, f32) = cb.get_node_with_size(&other);
        let (node, _w, _h): (svgbob::Node<()>, f32, f32) = cb.get_node_with_size(settings);
        let mut buffer = String::new();
        node.render(&mut buffer).expect("must render");
        buffer
    } else if entry == "mutate" {
        // a buffer that is rendered, then filled cell by cell through the public `DerefMut`, rendered again, changed back
        // and forth once more, and rendered with the requested settings: the last document must be the one a fresh buffer
        // of the same cells gives (the input must be free of quoted strings and legends: those do not live in the cell map)
        let full = svgbob::CellBuffer::from(input);
        let mut cb = svgbob::CellBuffer::new();
        let _empty: svgbob::Node<()> = cb.get_node();
        let cells: Vec<(svgbob::Cell, char)> = full.iter().map(|(c, ch)| (*c, *ch)).collect();
        let half = cells.len() / 2;
        for (c, ch) in cells.iter().take(half) {
            cb.insert(*c, *ch);
        }
        let _half: svgbob::Node<()> = cb.get_node();
        for (c, ch) in cells.iter().skip(half) {
            cb.insert(*c, *ch);
        }
        if let Some((c, ch)) = cells.first() {
            cb.remove(c);
            let _without: (svgbob::Node<()>, f32, f32) = cb.get_node_with_size(settings);
            cb.insert(*c, *ch);
        }
        // every occupied cell overwritten with a placeholder letter and rendered, then the characters written back: no cell
        // is added or removed between these two renderings, only the content of the cells changes
        for (c, _) in cells.iter() {
            cb.insert(*c, 'x');
        }
        let _placeholder: svgbob::Node<()> = cb.get_node();
        for (c, ch) in cells.iter() {
            cb.insert(*c, *ch);
        }
        let (node, _w, _h): (svgbob::Node<()>, f32, f32) = cb.get_node_with_size(settings);
        let mut buffer = String::new();
        node.render(&mut buffer).expect("must render");
        buffer
    } else if let Some(rest) = entry.strip_prefix("override:") {
        let mut it = rest.split(':');
        let w = parse_f32(it.next().unwrap());
        let h = parse_f32(it.next().unwrap());
        svgbob::to_svg_with_override_size(input, settings, w, h)
    } else {
        panic!("unknown entry {}", entry)
    }
}

fn front(input: &str) -> String {
    let cb = svgbob::CellBuffer::from(input);
    let mut out = String::new();
    out.push_str("cells=");
    let mut first = true;
    for (cell, ch) in cb.iter() {
        if !first {
            out.push(';');
        }
        first = false;
        out.push_str(&format!("{},{},{}", cell.x, cell.y, *ch as u32));
    }
    out.push_str(" esc=");
    first = true;
    for (cell, s) in cb.verif_escaped_text() {
        if !first {
            out.push(';');
        }
        first = false;
        out.push_str(&format!("{},{},{}", cell.x, cell.y, hex(s)));
    }
    out.push_str(" css=");
    first = true;
    for (k, v) in cb.verif_css_styles() {
        if !first {
            out.push(';');
        }
        first = false;
        out.push_str(&format!("{}:{}", hex(k), hex(v)));
    }
    out
}

fn escape_line(y: usize, raw: &str) -> String {
    let (esc, un) = svgbob::CellBuffer::verif_escape_line(y, raw);
    let mut out = String::from("esc=");
    let mut first = true;
    for (cell, s) in esc.iter() {
        if !first {
            out.push(';');
        }
        first = false;
        out.push_str(&format!("{},{},{}", cell.x, cell.y, hex(s)));
    }
    out.push_str(" un=");
    out.push_str(&hex(&un));
    out
}

fn legend(input: &str) -> String {
    match svgbob::verif_hooks::parse_css_legend(input) {
        None => "err".to_string(),
        Some(v) => {
            let mut out = String::from("css=");
            let mut first = true;
            for (k, s) in v.iter() {
                if !first {
                    out.push(';');
                }
                first = false;
                out.push_str(&format!("{}:{}", hex(k), hex(s)));
            }
            out
        }
    }
}

fn tag(input: &str) -> String {
    match svgbob::verif_hooks::parse_css_tag(input) {
        None => "err".to_string(),
        Some(v) => {
            let mut out = String::from("tags=");
            let mut first = true;
            for k in v.iter() {
                if !first {
                    out.push(';');
                }
                first = false;
                out.push_str(&hex(k));
            }
            out
        }
    }
}

/// env table for the characters of `input`: `cp:width:isws` (width -1 = None), then strw
fn env(input: &str) -> String {
    let mut seen: Vec<char> = input.chars().collect();
    seen.push('\0');
    seen.push(' ');
    seen.sort();
    seen.dedup();
    let mut out = String::from("env=");
    let mut first = true;
    for c in seen {
        if !first {
            out.push(',');
        }
        first = false;
        let w: i32 = match c.width() {
            Some(w) => w as i32,
            None => -1,
        };
        let sw = c.to_string().width();
        out.push_str(&format!(
            "{}:{}:{}:{}",
            c as u32,
            w,
            if c.is_whitespace() { 1 } else { 0 },
            sw
        ));
    }
    out
}

fn milli(v: f32) -> i64 {
    (v as f64 * 1000.0).round() as i64
}

fn marker_name(m: &Option<svgbob::fragment::Marker>) -> String {
    match m {
        None => "-".to_string(),
        Some(m) => format!("{}", m),
    }
}

/// canonical one-token dump of a fragment in milli-units
pub fn dump_fragment(f: &svgbob::Fragment) -> String {
    use svgbob::Fragment;
    match f {
        Fragment::Line(l) => format!(
            "L:{},{},{},{},{}",
            milli(l.start.x), milli(l.start.y), milli(l.end.x), milli(l.end.y), l.is_broken as u8
        ),
        Fragment::MarkerLine(m) => format!(
            "M:{},{},{},{},{},{},{}",
            milli(m.line.start.x), milli(m.line.start.y), milli(m.line.end.x), milli(m.line.end.y),
            m.line.is_broken as u8, marker_name(&m.start_marker), marker_name(&m.end_marker)
        ),
        Fragment::Circle(c) => format!(
            "C:{},{},{},{}",
            milli(c.center.x), milli(c.center.y), milli(c.radius), c.is_filled as u8
        ),
        Fragment::Arc(a) => format!(
            "A:{},{},{},{},{},{},{}",
            milli(a.start.x), milli(a.start.y), milli(a.end.x), milli(a.end.y), milli(a.radius),
            a.major_flag as u8, a.sweep_flag as u8
        ),
        Fragment::Polygon(p) => {
            let pts: Vec<String> = p.points.iter().map(|q| format!("{},{}", milli(q.x), milli(q.y))).collect();
            let tags: Vec<String> = p.tags.iter().map(|t| format!("{:?}", t)).collect();
            format!("P:{}:{}:{}", p.is_filled as u8, if tags.is_empty() { "-".to_string() } else { tags.join("+") }, pts.join("/"))
        }
        Fragment::Rect(r) => format!(
            "R:{},{},{},{},{},{},{}",
            milli(r.start.x), milli(r.start.y), milli(r.end.x), milli(r.end.y), r.is_filled as u8,
            match r.radius { Some(v) => format!("{}", milli(v)), None => "-".to_string() },
            r.is_broken as u8
        ),
        Fragment::CellText(t) => format!("T:{},{},{}", t.start.x, t.start.y, hex(&t.content)),
        Fragment::Text(t) => format!("X:{},{},{}", milli(t.start.x), milli(t.start.y), hex(&t.text)),
    }
}

fn dump_fragments(v: &[svgbob::FragmentSpan]) -> String {
    if v.is_empty() {
        return "-".to_string();
    }
    v.iter().map(|fs| dump_fragment(&fs.fragment)).collect::<Vec<_>>().join(";")
}

/// endorsement stage: `frags=<..> groups=<g1#g2..>`
fn mid(input: &str) -> String {
    let cb = svgbob::CellBuffer::from(input);
    let (frags, groups) = cb.verif_endorse();
    let gs: Vec<String> = groups.iter().map(|g| dump_fragments(g)).collect();
    format!(
        "frags={} groups={}",
        dump_fragments(&frags),
        if gs.is_empty() { "-".to_string() } else { gs.join("#") }
    )
}

fn handle(mode: &str, fields: &[&str]) -> String {
    match mode {
        "lib" => {
            // entry settings hex(input)
            let st = parse_settings(fields[1]);
            let input = unhex(fields[2]);
            let svg = run_lib(fields[0], &st, &input);
            format!("ok {}", hex(&svg))
        }
        "front" => front(&unhex(fields[0])),
        "mid" => mid(&unhex(fields[0])),
        "css0" => {
            // the base style sheet the jss! macro produces for these settings
            let st = parse_settings(fields[0]);
            let svg = svgbob::to_svg_with_settings("", &Settings { include_styles: true, include_defs: false, include_backdrop: false, ..st });
            let a = svg.find("<style>").map(|i| i + 7).unwrap_or(0);
            let b = svg.find("</style>").unwrap_or(svg.len());
            let css = &svg[a..b];
            // the style text is `css0 + "\n" + legend`; no legend here
            // the text was escaped for the style element: undo that (characters that were dropped
            // stay dropped, which the model's own escaping would do again anyway)
            let css = css.strip_suffix('\n').unwrap_or(css);
            let css = css.replace("&lt;", "<").replace("&gt;", ">").replace("&#13;", "\r").replace("&amp;", "&");
            hex(&css)
        }
        "stylefmt" => {
            // how the style sheet prints the two numeric settings
            let st = parse_settings(fields[0]);
            format!("{} {}", hex(&format!("{}", st.stroke_width)), hex(&format!("{}", st.font_size)))
        }
        "escape_line" => {
            escape_line(fields[0].parse().expect("y"), &unhex(fields[1]))
        }
        "legend" => legend(&unhex(fields[0])),
        "tag" => tag(&unhex(fields[0])),
        "env" => env(&unhex(fields[0])),
        _ => panic!("unknown mode {}", mode),
    }
}

/// `threads <T>`: all cases are read first; T threads are released by a barrier and each converts
/// every input with `to_svg` (thread k starts at case k, so the very first, table-initialising
/// calls race on different inputs); per case the outputs of all threads are compared
fn threads_mode(t: usize) {
    use std::sync::{Arc, Barrier};
    let stdin = io::stdin();
    let cases: Vec<(String, String)> = stdin
        .lock()
        .lines()
        .map(|l| l.expect("line"))
        .filter(|l| !l.trim().is_empty())
        .map(|l| {
            let mut it = l.trim_end().splitn(2, ' ');
            let id = it.next().unwrap().to_string();
            let input = unhex(it.next().unwrap_or("-"));
            (id, input)
        })
        .collect();
    let cases = Arc::new(cases);
    let barrier = Arc::new(Barrier::new(t));
    // the threads do not all use the same settings: thread k converts at scale SCALES[k % 4] (8 = the default, through
    // `to_svg`); every result is compared with a reference computed afterwards by one thread alone
    const SCALES: [f32; 4] = [8.0, 2.0, 8.0, 1.5];
    fn convert(input: &str, scale: f32) -> String {
        if scale == 8.0 {
            svgbob::to_svg(input)
        } else {
            let st = Settings { scale, ..Settings::default() };
            svgbob::to_svg_with_settings(input, &st)
        }
    }
    let mut handles = vec![];
    for k in 0..t {
        let cases = cases.clone();
        let barrier = barrier.clone();
        handles.push(std::thread::spawn(move || {
            barrier.wait();
            let n = cases.len();
            let scale = SCALES[k % 4];
            let mut out: Vec<Option<String>> = vec![None; n];
            for j in 0..n {
                let i = (j + k) % n;
                let input = cases[i].1.clone();
                let r = panic::catch_unwind(move || convert(&input, scale));
                out[i] = r.ok();
            }
            out
        }));
    }
    let results: Vec<Vec<Option<String>>> = handles.into_iter().map(|h| h.join().expect("thread")).collect();
    let stdout = io::stdout();
    let mut o = stdout.lock();
    for (i, (id, input)) in cases.iter().enumerate() {
        let mut same = true;
        for (k, r) in results.iter().enumerate() {
            let scale = SCALES[k % 4];
            let inp = input.clone();
            let reference = panic::catch_unwind(move || convert(&inp, scale)).ok();
            if r[i] != reference {
                same = false;
            }
        }
        let first = &results[0][i];
        match (same, first) {
            (true, Some(svg)) => writeln!(o, "{} ok {}", id, hex(svg)).unwrap(),
            (true, None) => writeln!(o, "{} panic -", id).unwrap(),
            (false, _) => writeln!(o, "{} differ", id).unwrap(),
        }
    }
}

fn main() {
    let args: Vec<String> = std::env::args().collect();
    let mode = args.get(1).cloned().unwrap_or_else(|| "lib".to_string());
    if mode == "threads" {
        if std::env::var("VERIF_PANIC_TRACE").is_err() {
            panic::set_hook(Box::new(|_| {}));
        }
        let t: usize = args.get(2).and_then(|v| v.parse().ok()).unwrap_or(8);
        threads_mode(t);
        return;
    }
    // keep panic messages off stderr unless asked
    if std::env::var("VERIF_PANIC_TRACE").is_err() {
        panic::set_hook(Box::new(|_| {}));
    }
    let stdin = io::stdin();
    let stdout = io::stdout();
    let mut out = stdout.lock();
    for line in stdin.lock().lines() {
        let line = line.expect("line");
        let line = line.trim_end();
        if line.is_empty() {
            continue;
        }
        let parts: Vec<&str> = line.split(' ').collect();
        let id = parts[0];
        let fields: Vec<&str> = parts[1..].to_vec();
        let m = mode.clone();
        let res = panic::catch_unwind(move || handle(&m, &fields));
        match res {
            Ok(s) => {
                writeln!(out, "{} {}", id, s).unwrap();
            }
            Err(e) => {
                let msg = if let Some(s) = e.downcast_ref::<&str>() {
                    s.to_string()
                } else if let Some(s) = e.downcast_ref::<String>() {
                    s.clone()
                } else {
                    "?".to_string()
                };
                writeln!(out, "{} panic {}", id, hex(&msg)).unwrap();
            }
        }
        out.flush().unwrap();
    }
}
